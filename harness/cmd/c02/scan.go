// C02 part (a) - correspondence of the hand-written scanners with the Coq
// model (coq/C02/Model.v `case` / `check_case`): outcome class AND value.
package main

import (
	"bytes"
	"fmt"
	"math"
	"net"
	"os"
	"path/filepath"
	"strings"
	"time"

	"github.com/blinklabs-io/gouroboros/cbor"
	"github.com/blinklabs-io/gouroboros/ledger/common"
	"github.com/blinklabs-io/gouroboros/muxer"

	"verifharness/vh"
)

const scanHeader = `From Coq Require Import String.
From V Require Import Lib.Base Lib.Hex Lib.Cbor Lib.CborParse C02.Model.
Open Scope string_scope.`

type sreplay struct {
	Scanner string `json:"scanner"`
	Hex     string `json:"hex"`
	Args    string `json:"args,omitempty"`
	Got     string `json:"got"`
}

type scanner struct {
	c  *vh.Ctx
	cf *vh.CaseFile
	r  *vh.Rng
	n  map[string]int
}

func (s *scanner) add(name string, in []byte, args, got, coq string) {
	s.n[name]++
	s.c.Res.Count("scan|"+name+"|"+vh.Hex(in)+"|"+args, len(in) > 1, "scan:"+name)
	s.cf.Add(coq, sreplay{name, vh.Hex(in), args, got})
}

func optN(v uint64, ok bool) string { return vh.Opt(vh.N(v), ok) }

// ---- inputs ----------------------------------------------------------------

// scanInputs: encodings of random items (all header forms), their
// truncations and byte mutations, inflated headers and raw random bytes.
func (s *scanner) scanInputs(n int, majors []byte) [][]byte {
	r := s.r
	var out [][]byte
	for i := 0; i < n; i++ {
		var b []byte
		switch r.Intn(10) {
		case 0:
			b = r.Bytes(r.Intn(12))
		case 1, 2:
			// bare header of the wanted major type, every width, boundary values, possibly truncated
			mt := vh.PickOne(r, majors)
			w := vh.PickOne(r, []int{0, 1, 2, 4, 8})
			b = head(mt, r.Boundary(), w)
			if r.Intn(3) == 0 {
				b = b[:r.Intn(len(b)+1)]
			} else {
				b = append(b, r.Bytes(r.Intn(6))...)
			}
			if r.Intn(8) == 0 && len(b) > 0 {
				b[0] = b[0]&0xe0 | byte(28+r.Intn(4)) // reserved / indefinite additional info
			}
		default:
			it := vh.RandItem(r, 3)
			if r.Intn(2) == 0 {
				xs := make([]*vh.Item, r.Intn(5))
				for j := range xs {
					xs[j] = vh.RandItem(r, 2)
				}
				it = vh.A(xs...)
				if r.Intn(3) == 0 {
					it = vh.Reform(r, it, vh.ReformOpts{Containers: true, Indef: true, Prob: 100, MaxDepth: 1})
				}
				if r.Intn(3) == 0 && len(xs)%2 == 0 {
					it.K = vh.KMap
					it.F = vh.MinForm(uint64(len(xs) / 2))
				}
			}
			b = it.Enc()
			switch r.Intn(5) {
			case 0:
				b = b[:r.Intn(len(b)+1)]
			case 1:
				if len(b) > 0 {
					b[r.Intn(len(b))] = byte(r.U64())
				}
			}
		}
		out = append(out, b)
	}
	return out
}

// the model's stream decoder is the Lib parser with acceptance "any
// well-formed item": inputs that can trigger fxamacker's extra decode-time
// rules (content of tags 0..5, nesting above its limit) are left out of the
// CORRESPONDENCE (they are still fuzzed in part b)
func plainCbor(b []byte) bool {
	for i, x := range b {
		if x >= 0xc0 && x <= 0xc5 {
			return false
		}
		if x == 0xd8 && i+1 < len(b) && b[i+1] <= 5 {
			return false
		}
		if (x == 0xd9 || x == 0xda || x == 0xdb) && i+2 < len(b) && b[i+1] == 0 {
			return false
		}
	}
	return true
}

// ---- ArrayInfo / MapInfo ----------------------------------------------------
func (s *scanner) infos(n int) {
	for _, b := range s.scanInputs(n, []byte{4, 5}) {
		for _, f := range []struct {
			name  string
			major uint64
			fn    func([]byte) (int, uint32, bool)
		}{{"cbor.ArrayInfo", 128, cbor.ArrayInfo}, {"cbor.MapInfo", 160, cbor.MapInfo}} {
			var cnt int
			var hs uint32
			var ind bool
			p, pv := vh.Recover(func() { cnt, hs, ind = f.fn(b) })
			if p {
				s.c.Res.Violate("monitor", f.name+":panic", fmt.Sprintf("%s panicked on %x: %v", f.name, b, pv), sreplay{f.name, vh.Hex(b), "", "panic"})
				continue
			}
			s.add(f.name, b, "", fmt.Sprintf("%d,%d,%v", cnt, hs, ind),
				fmt.Sprintf("(CInfo %s %s %s %s %s)", vh.N(f.major), vh.Bytes(b), optN(uint64(cnt), cnt >= 0), vh.Nat(int(hs)), vh.Bool(ind)))
		}
	}
}

// ---- DecodeArrayHeader / DecodeMapHeader ------------------------------------
func (s *scanner) headers(n int) {
	for _, b := range s.scanInputs(n, []byte{4, 5}) {
		pre := 0
		if s.r.Intn(3) == 0 {
			// a few leading bytes consumed through Advance first (absStart > 0)
			pre = s.r.Intn(4)
			b = append(s.r.Bytes(pre), b...)
		}
		for _, isMap := range []bool{false, true} {
			name, major := "cbor.StreamDecoder.DecodeArrayHeader", uint64(128)
			if isMap {
				name, major = "cbor.StreamDecoder.DecodeMapHeader", 160
			}
			var l, hl int
			var err error
			p, pv := vh.Recover(func() {
				d, e := cbor.NewStreamDecoder(b)
				if e != nil {
					err = e
					return
				}
				if pre > 0 {
					if e := d.Advance(pre); e != nil {
						err = e
						return
					}
				}
				if isMap {
					l, _, hl, err = d.DecodeMapHeader()
				} else {
					l, _, hl, err = d.DecodeArrayHeader()
				}
				if err == nil && d.Position() != pre+hl {
					err = fmt.Errorf("position %d after a %d-byte header at %d", d.Position(), hl, pre)
					s.c.Res.Violate("monitor", name+":position", err.Error(), sreplay{name, vh.Hex(b), fmt.Sprint(pre), "position"})
				}
			})
			if p {
				s.c.Res.Violate("monitor", name+":panic", fmt.Sprintf("%s panicked on %x at %d: %v", name, b, pre, pv), sreplay{name, vh.Hex(b), fmt.Sprint(pre), "panic"})
				continue
			}
			res := "None"
			if err == nil {
				res = fmt.Sprintf("(Some (%s, %s))", vh.N(uint64(l)), vh.Nat(hl))
			}
			s.add(name, b, fmt.Sprint(pre), fmt.Sprintf("%d,%d,%v", l, hl, err),
				fmt.Sprintf("(CHeader %s %s %s %s)", vh.N(major), vh.Bytes(b), vh.Nat(pre), res))
		}
	}
}

// ---- RawBytes / Advance ------------------------------------------------------
func (s *scanner) rawAndAdvance(n int) {
	ints := func(l int) int {
		switch s.r.Intn(8) {
		case 0:
			return -1 - s.r.Intn(3)
		case 1:
			return math.MaxInt - s.r.Intn(3)
		case 2:
			return math.MinInt + s.r.Intn(3)
		case 3:
			return math.MaxInt - l + s.r.Intn(3) - 1
		case 4:
			return l + s.r.Intn(3) - 1
		default:
			return s.r.Intn(l + 2)
		}
	}
	for i := 0; i < n; i++ {
		data := s.r.Bytes(s.r.Intn(12))
		off, ln := ints(len(data)), ints(len(data))
		d, err := cbor.NewStreamDecoder(data)
		if err != nil {
			continue
		}
		var got []byte
		p, _ := vh.Recover(func() { got = d.RawBytes(off, ln) })
		res := "None"
		if !p && got != nil {
			res = "(Some " + vh.Bytes(got) + ")"
		}
		s.add("cbor.StreamDecoder.RawBytes", data, fmt.Sprintf("%d,%d", off, ln), fmt.Sprintf("%x,%v", got, p),
			fmt.Sprintf("(CRaw %s %s %s %s %s)", vh.Bytes(data), vh.Z(int64(off)), vh.Z(int64(ln)), res, vh.Bool(p)))
		// Advance: position pos first (in range), then the step under test
		pos := s.r.Intn(len(data) + 1)
		step := ints(len(data))
		if s.r.Intn(3) == 0 {
			step = s.r.Intn(10)
		}
		d2, _ := cbor.NewStreamDecoder(data)
		if err := d2.Advance(pos); err != nil {
			continue
		}
		var aerr error
		p2, _ := vh.Recover(func() { aerr = d2.Advance(step) })
		cls, np := 0, 0
		switch {
		case p2:
			cls = 2
		case aerr != nil:
			cls = 1
		default:
			np = d2.Position()
		}
		s.add("cbor.StreamDecoder.Advance", data, fmt.Sprintf("%d,%d", pos, step), fmt.Sprintf("%d,%d", cls, np),
			fmt.Sprintf("(CAdvance %s %s %s %s %s)", vh.Bytes(data), vh.Nat(pos), vh.Z(int64(step)), vh.N(uint64(cls)), vh.Nat(np)))
	}
}

// ---- ListLength / DecodeIdFromList ---------------------------------------------
func slowLen(b []byte) (uint64, bool) {
	var tmp []cbor.RawMessage
	if _, err := cbor.Decode(b, &tmp); err != nil {
		return 0, false
	}
	return uint64(len(tmp)), true
}

func slowID(b []byte) (uint64, bool) {
	var tmp cbor.Value
	if _, err := cbor.Decode(b, &tmp); err != nil {
		return 0, false
	}
	list, ok := tmp.Value().([]any)
	if !ok || len(list) == 0 {
		return 0, false
	}
	v, ok := list[0].(uint64)
	if !ok || v > uint64(math.MaxInt) {
		return 0, false
	}
	return v, true
}

func (s *scanner) ids(n int) {
	ins := s.scanInputs(n, []byte{4})
	// tagged lists with every header form
	for i := 0; i < n/2; i++ {
		xs := []*vh.Item{{K: vh.KUInt, F: vh.PickOne(s.r, []vh.Form{vh.Fimm, vh.F1, vh.F2, vh.F8}), N: uint64(s.r.Intn(24))}}
		for j := s.r.Intn(4); j > 0; j-- {
			xs = append(xs, vh.RandItem(s.r, 1))
		}
		it := vh.A(xs...)
		it.F = vh.PickOne(s.r, []vh.Form{vh.Fimm, vh.F1, vh.F2, vh.F4, vh.F8, vh.Findef})
		if it.F == vh.Fimm {
			it.F = vh.MinForm(uint64(len(xs)))
		}
		b := it.Enc()
		if s.r.Intn(4) == 0 {
			b = b[:s.r.Intn(len(b)+1)]
		}
		ins = append(ins, b)
	}
	for _, b := range ins {
		var l, id int
		var e1, e2 error
		p, pv := vh.Recover(func() {
			l, e1 = cbor.ListLength(b)
			id, e2 = cbor.DecodeIdFromList(b)
		})
		if p {
			s.c.Res.Violate("monitor", "cbor.DecodeIdFromList:panic", fmt.Sprintf("panicked on %x: %v", b, pv), sreplay{"cbor.DecodeIdFromList", vh.Hex(b), "", "panic"})
			continue
		}
		ll, llok := slowLen(b)
		li, liok := slowID(b)
		s.add("cbor.DecodeIdFromList", b, "", fmt.Sprintf("%d,%v,%d,%v", l, e1, id, e2),
			fmt.Sprintf("(CId %s %s %s %s %s)", vh.Bytes(b), optN(ll, llok), optN(li, liok), optN(uint64(l), e1 == nil), optN(uint64(id), e2 == nil)))
	}
}

// ---- NewAddressFromBytes ---------------------------------------------------------
func varLen(b []byte) int {
	// independent scan of three variable-length integers
	o := 0
	for k := 0; k < 3; k++ {
		for {
			if o >= len(b) {
				return -1
			}
			x := b[o]
			o++
			if x&0x80 == 0 {
				break
			}
		}
	}
	return o
}

func (s *scanner) addrs(n int, cp *corpus) {
	var ins [][]byte
	seeds := cp.groups["addr"]
	for i := 0; i < n; i++ {
		var b []byte
		switch s.r.Intn(6) {
		case 0:
			b = s.r.Bytes(s.r.Intn(70))
		case 1, 2:
			// header type x network, payload of a length around the expected one, pointer tails
			ty := byte(s.r.Intn(16))
			net := byte(s.r.Intn(3))
			b = []byte{ty<<4 | net}
			b = append(b, s.r.Bytes(vh.PickOne(s.r, []int{0, 1, 27, 28, 29, 55, 56, 57, 58}))...)
			if ty == 4 || ty == 5 {
				b = b[:min(len(b), 29)]
				for k := s.r.Intn(5); k > 0; k-- {
					for j := s.r.Intn(11); j > 0; j-- {
						b = append(b, 0x80|byte(s.r.U64()))
					}
					b = append(b, byte(s.r.Intn(128)))
				}
				if s.r.Intn(4) == 0 {
					b = append(b, 0x80) // unterminated integer
				}
			}
		default:
			b = append([]byte(nil), seeds[s.r.Intn(len(seeds))]...)
			switch s.r.Intn(4) {
			case 0:
				b = b[:s.r.Intn(len(b)+1)]
			case 1:
				b[s.r.Intn(len(b))] = byte(s.r.U64())
			case 2:
				b = append(b, vh.PickOne(s.r, [][]byte{{0}, {44}, {1}, {0, 0}})...)
			}
		}
		ins = append(ins, b)
	}
	for _, b := range ins {
		var a common.Address
		var err error
		p, pv := vh.Recover(func() { a, err = common.NewAddressFromBytes(b) })
		if p {
			s.c.Res.Violate("monitor", "common.NewAddressFromBytes:panic", fmt.Sprintf("panicked on %x: %v", b, pv), sreplay{"common.NewAddressFromBytes", vh.Hex(b), "", "panic"})
			continue
		}
		byron := len(b) > 0 && b[0]>>4 == 8
		cls := 0
		if err != nil {
			cls = 1
		}
		ptr := "None"
		var extra []byte
		if err == nil && !byron {
			ty := b[0] >> 4
			exp := 1
			if ty <= 7 {
				exp += 28
			}
			switch ty {
			case 0, 1, 2, 3, 14, 15:
				exp += 28
			case 4, 5:
				exp += varLen(b[29:])
			}
			if exp <= len(b) {
				extra = b[exp:]
			}
			if pp, ok := a.StakingPayload().(common.AddressPayloadPointer); ok {
				ptr = fmt.Sprintf("(Some (%s, %s, %s))", vh.N(pp.Slot), vh.N(pp.TxIndex), vh.N(pp.CertIndex))
			}
		}
		s.add("common.NewAddressFromBytes", b, "", fmt.Sprintf("%d,%s", cls, ptr),
			fmt.Sprintf("(CAddr %s %s %s %s %s)", vh.Bytes(b), vh.Bool(byron && err == nil), vh.N(uint64(cls)), ptr, vh.Bytes(extra)))
	}
}

// ---- ExtractAndSetTransactionCbor ----------------------------------------------------
func (s *scanner) extracts(n int, cp *corpus) {
	r := s.r
	type in struct {
		b      []byte
		eb, ew int
	}
	var ins []in
	small := func() *vh.Item {
		for {
			it := vh.RandItem(r, 2)
			if plainCbor(it.Enc()) {
				return it
			}
		}
	}
	for i := 0; i < n; i++ {
		nb, nw := r.Intn(4), r.Intn(4)
		if r.Intn(3) != 0 {
			nw = nb
		}
		mk := func(k int) *vh.Item {
			xs := make([]*vh.Item, k)
			for j := range xs {
				xs[j] = small()
			}
			return vh.A(xs...)
		}
		parts := []*vh.Item{small(), mk(nb), mk(nw)}
		for k := r.Intn(3); k > 0; k-- {
			parts = append(parts, small())
		}
		if r.Intn(10) == 0 {
			parts = parts[:r.Intn(3)]
		}
		blk := vh.A(parts...)
		blk = vh.Reform(r, blk, vh.ReformOpts{Containers: true, Indef: true, Prob: 60, MaxDepth: 2})
		b := blk.Enc()
		switch r.Intn(6) {
		case 0:
			b = b[:r.Intn(len(b)+1)]
		case 1:
			if len(b) > 0 {
				p := r.Intn(len(b))
				b[p] = byte(r.U64())
			}
		case 2:
			sp := spansOf(b)
			if len(sp) > 0 {
				x := sp[r.Intn(min(len(sp), 4))]
				inf := inflated[r.Intn(len(inflated))]
				if x.major == 4 || x.major == 5 {
					b = splice(b, x.off, x.off+x.hdr, head(x.major, inf.n, inf.w))
				}
			}
		}
		eb, ew := nb, nw
		if r.Intn(5) == 0 {
			eb = r.Intn(4)
		}
		if r.Intn(5) == 0 {
			ew = r.Intn(4)
		}
		if !plainCbor(b) {
			continue
		}
		ins = append(ins, in{b, eb, ew})
	}
	for _, w := range []int{1, 2, 4, 8} {
		h := head(4, 3, w)
		for cut := 1; cut <= len(h); cut++ {
			ins = append(ins, in{h[:cut], 0, 0})
		}
	}
	// one real block (the smallest fixture) with its true counts
	if blk := cp.groups["block:shelley"]; len(blk) > 0 && len(blk[0]) < 6000 && plainCbor(blk[0]) {
		if offs, err := common.ExtractTransactionOffsets(blk[0]); err == nil {
			ins = append(ins, in{blk[0], len(offs.Transactions), len(offs.Transactions)})
		}
	}
	for _, x := range ins {
		for _, meta := range []bool{true, false} {
			var cbs []string
			rec := func(kind uint64) func(int, []byte) {
				return func(i int, d []byte) {
					cbs = append(cbs, fmt.Sprintf("(%s, %s, %s)", vh.N(kind), vh.Nat(i), vh.Bytes(d)))
				}
			}
			var setMeta func([]byte)
			if meta {
				setMeta = func(d []byte) { cbs = append(cbs, fmt.Sprintf("(%s, %s, %s)", vh.N(0), vh.Nat(0), vh.Bytes(d))) }
			}
			var err error
			p, pv := vh.Recover(func() {
				err = common.ExtractAndSetTransactionCbor(x.b, rec(1), rec(2), setMeta, x.eb, x.ew)
			})
			cls := 0
			if p {
				cls = 2
				s.c.Res.Violate("monitor", "common.ExtractAndSetTransactionCbor:panic", fmt.Sprintf("panicked on %x (%d,%d): %v", x.b, x.eb, x.ew, pv),
					sreplay{"common.ExtractAndSetTransactionCbor", vh.Hex(x.b), fmt.Sprintf("%d,%d,%v", x.eb, x.ew, meta), "panic"})
			} else if err != nil {
				cls = 1
			}
			s.add("common.ExtractAndSetTransactionCbor", x.b, fmt.Sprintf("%d,%d,%v", x.eb, x.ew, meta), fmt.Sprintf("%d callbacks, class %d", len(cbs), cls),
				fmt.Sprintf("(CExtract %s %s %s %s %s %s)", vh.Bytes(x.b), vh.Nat(x.eb), vh.Nat(x.ew), vh.Bool(meta), vh.List(cbs), vh.N(uint64(cls))))
		}
	}
}

// ---- ParseDiagnostic ---------------------------------------------------------------------
func diagSpans(n *cbor.DiagnosticNode, out *[]string) {
	*out = append(*out, fmt.Sprintf("(%s, %s)", vh.Nat(n.Offset), vh.Nat(n.Length)))
	for i := range n.Children {
		diagSpans(&n.Children[i], out)
	}
}

func (s *scanner) diags(n int) {
	r := s.r
	for i := 0; i < n; i++ {
		var b []byte
		switch r.Intn(9) {
		case 8:
			// a header of any major type and width cut at any length, possibly inside a list
			h := head(byte(r.Intn(8)), r.Boundary(), vh.PickOne(r, []int{1, 2, 4, 8}))
			b = h[:1+r.Intn(len(h))]
			if r.Bool() {
				b = append([]byte{0x82, 0x00}, b...)
			}
		case 0:
			b = nest(r.Intn(8), vh.PickOne(r, []int{3, 20, 255, 256, 257, 258}), []byte{0x01})
		case 1:
			b = chunks(r.Intn(8), r.Intn(6))
		default:
			b = vh.RandItem(r, 4).Enc()
			switch r.Intn(6) {
			case 0:
				b = b[:r.Intn(len(b)+1)]
			case 1:
				if len(b) > 0 {
					// replace one byte by a structural byte (keeps text payloads ASCII most of the time)
					b[r.Intn(len(b))] = vh.PickOne(r, []byte{0x00, 0x17, 0x18, 0x1f, 0x40, 0x41, 0x5f, 0x60, 0x61, 0x7f, 0x80, 0x81, 0x9f, 0xa1, 0xbf, 0xd8, 0xf6, 0xff, 0x98, 0x9a, 0xbb})
				}
			case 2:
				b = append(b, vh.RandItem(r, 1).Enc()...) // trailing data
			case 3:
				sp := spansOf(b)
				if len(sp) > 0 {
					x := sp[r.Intn(len(sp))]
					if x.major >= 2 && x.major <= 5 {
						inf := inflated[r.Intn(len(inflated))]
						b = splice(b, x.off, x.off+x.hdr, head(x.major, inf.n, inf.w))
					}
				}
			}
		}
		if !plainCbor(b) || len(b) > 1200 {
			continue
		}
		var node *cbor.DiagnosticNode
		var err error
		p, pv := vh.Recover(func() { node, err = cbor.ParseDiagnostic(b) })
		if p {
			s.c.Res.Violate("monitor", "cbor.ParseDiagnostic:panic", fmt.Sprintf("panicked on %x: %v", b, pv), sreplay{"cbor.ParseDiagnostic", vh.Hex(b), "", "panic"})
			continue
		}
		if err != nil && (strings.Contains(err.Error(), "UTF-8") || strings.Contains(err.Error(), "exceeded max nested") || strings.Contains(err.Error(), "invalid simple value")) {
			// a decode-time rule of fxamacker for the destination `any`, outside the model's acceptance predicate
			s.c.Res.Count("", false, "scan:skipped-library-rule")
			continue
		}
		cls := 0
		var sp []string
		if err != nil {
			cls = 1
		} else {
			diagSpans(node, &sp)
		}
		s.add("cbor.ParseDiagnostic", b, "", fmt.Sprintf("class %d, %d nodes", cls, len(sp)),
			fmt.Sprintf("(CDiag %s %s %s)", vh.Bytes(b), vh.N(uint64(cls)), vh.List(sp)))
	}
}

// ---- muxer read loop -----------------------------------------------------------------------
func (s *scanner) muxes(n int) {
	for i := 0; i < n; i++ {
		// a byte stream of a few segments, the last one possibly cut or with a zero length
		var stream []byte
		for k := s.r.Intn(4); k >= 0; k-- {
			pl := vh.PickOne(s.r, []int{1, 2, 7, 300, 0})
			if s.r.Intn(6) != 0 && pl == 0 {
				pl = 3
			}
			// protocol id with the response bit clear: one receiver channel, so the delivery order is observable
			hdr := []byte{byte(s.r.U64()), byte(s.r.U64()), 0, 0, byte(s.r.U64()) & 0x7f, byte(s.r.U64()), byte(pl >> 8), byte(pl)}
			stream = append(stream, hdr...)
			stream = append(stream, s.r.Bytes(pl)...)
		}
		if s.r.Intn(3) == 0 {
			stream = stream[:s.r.Intn(len(stream)+1)]
		}
		segs, allocs := runMux(stream)
		al := make([]string, len(allocs))
		for j, a := range allocs {
			al[j] = vh.N(uint64(a))
		}
		s.add("muxer.readLoop", stream, "", fmt.Sprintf("%d segments", segs),
			fmt.Sprintf("(CMux %s %s %s)", vh.Bytes(stream), vh.Nat(segs), vh.List(al)))
	}
}

// runMux feeds the stream to a real Muxer over net.Pipe and returns the number
// of segments it delivered and their payload lengths (the delivered buffers;
// the buffer of a final, unfilled segment is not observable from outside and
// is added from the stream's own header so that the ledger can be compared)
func runMux(stream []byte) (int, []int) {
	cl, srv := net.Pipe()
	m := muxer.New(srv)
	m.SetDiffusionMode(muxer.DiffusionModeInitiatorAndResponder)
	_, r1, _ := m.RegisterProtocol(muxer.ProtocolUnknown, muxer.ProtocolRoleInitiator)
	_, r2, _ := m.RegisterProtocol(muxer.ProtocolUnknown, muxer.ProtocolRoleResponder)
	m.Start()
	got := make(chan int, 64)
	fin := make(chan bool, 2)
	drain := func(ch chan *muxer.Segment) {
		for sg := range ch {
			got <- len(sg.Payload)
		}
		fin <- true
	}
	go drain(r1)
	go drain(r2)
	go func() {
		cl.SetWriteDeadline(time.Now().Add(5 * time.Second))
		cl.Write(stream)
		cl.Close()
	}()
	<-fin
	<-fin
	m.Stop()
	close(got)
	var allocs []int
	for l := range got {
		allocs = append(allocs, l)
	}
	segs := len(allocs)
	// the allocation for a last, incomplete segment (header read, payload short, length non-zero)
	off := 0
	for range allocs {
		off += 8 + (int(stream[off+6])<<8 | int(stream[off+7]))
	}
	if len(stream)-off >= 8 {
		if pl := int(stream[off+6])<<8 | int(stream[off+7]); pl != 0 {
			allocs = append(allocs, pl)
		}
	}
	return segs, allocs
}

// ---------------------------------------------------------------------------------------------
func runScan(c *vh.Ctx, cp *corpus) {
	s := &scanner{c: c, r: c.Rng.Fork(), n: map[string]int{}}
	s.cf = c.NewCaseFile("scan", scanHeader)
	s.cf.SetShardSize(c.Pick(120, 300))
	k := c.Pick(1, 6)
	// C02_SCAN=name,name restricts the run to some scanners (development aid)
	want := func(name string) bool {
		f := os.Getenv("C02_SCAN")
		return f == "" || strings.Contains(","+f+",", ","+name+",")
	}
	if want("infos") {
		s.infos(70 * k)
	}
	if want("headers") {
		s.headers(50 * k)
	}
	if want("raw") {
		s.rawAndAdvance(60 * k)
	}
	if want("ids") {
		s.ids(50 * k)
	}
	if want("addrs") {
		s.addrs(110*k, cp)
	}
	if want("extracts") {
		s.extracts(60*k, cp)
	}
	if want("diags") {
		s.diags(150 * k)
	}
	if want("muxes") {
		s.muxes(25 * k)
	}
	if want("cbor") {
		s.extractCbor(40 * k)
	}
	if want("items") {
		s.arrayItems(60 * k)
	}
	if want("protos") {
		s.protos(c.Pick(50, 250))
	}
	s.cf.Flush()
	// the offset walkers: whole blocks, a few hundred bytes to 3 KB each -> small shards
	if want("offsets") {
		main := s.cf
		s.cf = c.NewCaseFile("walk", scanHeader)
		s.cf.SetShardSize(c.Pick(30, 60))
		s.offsets(c.Pick(70, 700), cp)
		s.cf.Flush()
		s.cf = main
	}
	var parts []string
	for _, k := range vh.SortedKeys(s.n) {
		parts = append(parts, fmt.Sprintf("%s %d", k, s.n[k]))
	}
	c.Res.Notes = append(c.Res.Notes, "scanner correspondence cases (value and outcome class compared with the Coq model): "+strings.Join(parts, ", "))
	c.Res.TracesValidated += c.Res.CoqCases
}

var _ = bytes.Equal
var _ = os.Getenv
var _ = filepath.Join
