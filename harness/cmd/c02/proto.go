// C02 part (a) - protocol.readLoop (buffer handling: tmpMsg[0],
// Bytes()[:numBytesRead], Bytes()[numBytesRead:], waiting for more data on
// io.ErrUnexpectedEOF) tied to the Coq model `proto_read` through a REAL
// protocol.Protocol on a real muxer over net.Pipe.  Only exported API is used
// (no verif hook): the message constructor handed to the protocol records
// every (msgType, msgData) the read loop produces, the error channel says
// whether the loop gave up.
//
// Determinism.  The read loop runs in its own goroutine; the harness may only
// compare what is certain to have happened:
//   - a prelude message moves the protocol out of its initial state (the loop
//     returns SILENTLY on an empty message while in the initial state); the
//     harness waits for the handler call of the prelude;
//   - after the N segments under test it writes 12 flush segments.  net.Pipe
//     writes are synchronous and the muxer's receive channel holds 10
//     segments, so when the last flush segment has been written the first one
//     has been taken by the read loop - i.e. segments 0..N have been worked
//     off completely.  What the loop did with the flush segments themselves
//     is not certain; the model is given all segments and `must` = N+1, and
//     the check accepts any observation between "exactly the certain part" and
//     "everything" (coq/C02/Model.v, CProto).
package main

import (
	"encoding/binary"
	"fmt"
	"net"
	"sync"
	"time"

	"github.com/blinklabs-io/gouroboros/muxer"
	"github.com/blinklabs-io/gouroboros/protocol"

	"verifharness/vh"
)

type pmsg struct{ b []byte }

func (m *pmsg) SetCbor(b []byte) { m.b = b }
func (m *pmsg) Cbor() []byte     { return m.b }
func (m *pmsg) Type() uint8      { return 0 }

type pcall struct {
	ty   uint64
	data []byte
}

const protoFlush = 12

var flushSeg = []byte{0x5a, 0x7f, 0xff, 0xff, 0xff} // a byte string that never completes

// runProto feeds prelude + segs + flush segments to a real protocol and
// returns the constructor calls, whether an error was reported, and whether
// the run itself worked (false = the harness could not synchronise; no case)
func runProto(segs [][]byte) (calls []pcall, errored bool, ok bool) {
	cl, srv := net.Pipe()
	m := muxer.New(srv)
	m.SetDiffusionMode(muxer.DiffusionModeInitiatorAndResponder)
	errCh := make(chan error, 16)
	var mu sync.Mutex
	handled := make(chan struct{}, 1024)
	s0 := protocol.NewState(1, "S0")
	s1 := protocol.NewState(2, "S1")
	sm := protocol.StateMap{
		s0: {Agency: protocol.AgencyClient, Transitions: []protocol.StateTransition{{MsgType: 0, NewState: s1}}},
		s1: {Agency: protocol.AgencyClient, Transitions: []protocol.StateTransition{{MsgType: 0, NewState: s1}}},
	}
	p := protocol.New(protocol.ProtocolConfig{
		Name: "c02", ProtocolId: 7, ErrorChan: errCh, Muxer: m,
		Mode: protocol.ProtocolModeNodeToNode, Role: protocol.ProtocolRoleServer,
		MessageHandlerFunc: func(protocol.Message) error {
			select {
			case handled <- struct{}{}:
			default:
			}
			return nil
		},
		MessageFromCborFunc: func(ty uint, data []byte) (protocol.Message, error) {
			mu.Lock()
			calls = append(calls, pcall{uint64(ty), append([]byte(nil), data...)})
			mu.Unlock()
			return &pmsg{b: data}, nil
		},
		StateMap: sm, InitialState: s0,
	})
	p.Start()
	m.Start()
	defer func() {
		// the muxer first: its read loop may sit in a send to the (full) receive channel holding the
		// channel's mutex, and Protocol.Stop (UnregisterProtocol) waits for that mutex
		cl.Close()
		m.Stop()
		stopped := make(chan struct{})
		go func() { p.Stop(); close(stopped) }()
		select {
		case <-stopped:
		case <-time.After(5 * time.Second):
		}
	}()
	write := func(payload []byte) error {
		buf := make([]byte, 8+len(payload))
		binary.BigEndian.PutUint16(buf[4:], 7) // response flag clear: to the responder
		binary.BigEndian.PutUint16(buf[6:], uint16(len(payload)))
		copy(buf[8:], payload)
		cl.SetWriteDeadline(time.Now().Add(20 * time.Second))
		_, err := cl.Write(buf)
		return err
	}
	if write([]byte{0x81, 0x00}) != nil {
		return nil, false, false
	}
	select {
	case <-handled:
	case <-errCh:
		return nil, false, false
	case <-time.After(20 * time.Second):
		return nil, false, false
	}
	done := make(chan error, 1)
	go func() {
		for _, s := range segs {
			if err := write(s); err != nil {
				done <- err
				return
			}
		}
		for i := 0; i < protoFlush; i++ {
			if err := write(flushSeg); err != nil {
				done <- err
				return
			}
		}
		done <- nil
	}()
	snapshot := func() []pcall {
		mu.Lock()
		defer mu.Unlock()
		return append([]pcall(nil), calls...)
	}
	select {
	case <-errCh:
		return snapshot(), true, true
	case werr := <-done:
		select {
		case <-errCh:
			return snapshot(), true, true
		default:
		}
		if werr != nil {
			return nil, false, false
		}
		return snapshot(), false, true
	case <-time.After(40 * time.Second):
		return nil, false, false
	}
}

// protoMessages: message-like items and the byte soup around them
func (s *scanner) protoStream() [][]byte {
	r := s.r
	item := func() []byte {
		switch r.Intn(16) {
		case 0:
			return []byte{0x80} // empty message
		case 1:
			return vh.Null().Enc()
		case 2:
			return vh.U(uint64(r.Intn(30))).Enc() // not a list
		case 3:
			return vh.M(vh.U(0), vh.U(1)).Enc()
		case 4:
			return []byte{vh.PickOne(r, []byte{0xff, 0x1c, 0x3d, 0x5e, 0x9c, 0xfc, 0xf8})} // break / reserved additional info
		case 5:
			return []byte{0xf8, byte(r.Intn(32))} // invalid two-byte simple value
		}
		first := vh.PickOne(r, []*vh.Item{vh.U(uint64(r.Intn(12))), vh.U(uint64(r.Intn(12))), vh.U(uint64(r.Intn(12))),
			{K: vh.KUInt, F: vh.PickOne(r, []vh.Form{vh.F1, vh.F2, vh.F4, vh.F8}), N: uint64(r.Intn(300))},
			vh.U(r.Boundary()), vh.Null(), simple(23), simple(uint64(r.Intn(20))), simple(uint64(32 + r.Intn(200))),
			vh.TagOf(vh.PickOne(r, []uint64{6, 24, 258}), vh.U(3)), vh.NI(2), vh.T("x"), vh.A(vh.U(1)), vh.BoolItem(true), vh.B([]byte{1})})
		xs := []*vh.Item{first}
		for k := r.Intn(4); k > 0; k-- {
			x := vh.RandItem(r, 2)
			if !modelled(x, 0) {
				x = vh.B(r.Bytes(r.Intn(20)))
			}
			xs = append(xs, x)
		}
		msg := vh.A(xs...)
		msg.F = vh.PickOne(r, []vh.Form{vh.MinForm(uint64(len(xs))), vh.MinForm(uint64(len(xs))), vh.F1, vh.F2, vh.F4, vh.F8, vh.Findef})
		var it *vh.Item = msg
		if r.Intn(10) == 0 {
			it = wrapTags(r, msg)
		}
		b := it.Enc()
		switch r.Intn(14) {
		case 0:
			b = b[:r.Intn(len(b)+1)] // cut short: the next bytes of the stream complete (or spoil) it
		case 1:
			// a header that claims more elements / bytes than will come (bounded: the library refuses counts above 10^7)
			b = append(head(vh.PickOne(r, []byte{2, 3, 4, 5}), uint64(2+r.Intn(60)), vh.PickOne(r, []int{0, 1, 2, 4, 8})), b...)
		}
		return b
	}
	// mostly messages; at most one spoiler, usually late in the stream
	var stream []byte
	good := func() []byte {
		for {
			b := item()
			if len(b) > 2 && b[0]&0xe0 == 0x80 {
				return b
			}
		}
	}
	n := r.Intn(5)
	spoil := -1
	if r.Intn(3) != 0 {
		spoil = r.Intn(n + 1)
	}
	for k := 0; k <= n; k++ {
		if k == spoil {
			stream = append(stream, item()...)
		} else {
			stream = append(stream, good()...)
		}
	}
	// cut the stream into 1..6 segments at arbitrary points
	var segs [][]byte
	for len(stream) > 0 {
		n := 1 + r.Intn(len(stream))
		if r.Intn(3) == 0 {
			n = len(stream)
		}
		if len(segs) >= 5 {
			n = len(stream)
		}
		segs = append(segs, stream[:n])
		stream = stream[n:]
	}
	return segs
}

func (s *scanner) protos(n int) {
	name := "protocol.readLoop"
	failed := 0
	// fixed streams first (seed-independent): the empty message, null, a non-list, a message split inside its
	// header / inside a string, two messages in one segment, a break byte, a first element that is not a number
	fixed := [][][]byte{
		{{0x80}}, {{0x82, 0x01, 0x02}, {0x80}}, {{0xf6}}, {{0x05}}, {{0x82, 0x00}, {0x41}, {0x07, 0x81, 0x03}},
		{{0x98}, {0x02, 0x04, 0x05}}, {{0x81, 0x01, 0x82, 0x02, 0x40}}, {{0xff}}, {{0x81, 0x61, 0x78}}, {{0x9f, 0x09}, {0xff, 0x81}, {0x0a}},
		{{0x81, 0xf6}, {0x81, 0xe5}}, {{0xc6, 0x82, 0x0b, 0x0c}}, {{0x81, 0x18}}, {{0xa1, 0x00, 0x00}},
	}
	for i := 0; i < n+len(fixed); i++ {
		var segs [][]byte
		if i < len(fixed) {
			segs = fixed[i]
		} else {
			segs = s.protoStream()
		}
		var whole []byte
		for _, x := range segs {
			whole = append(whole, x...)
		}
		for k := 0; k < protoFlush; k++ {
			whole = append(whole, flushSeg...)
		}
		if libLimit(whole) {
			s.c.Res.Count("", false, "scan:skipped-library-rule")
			continue
		}
		// a panic inside the protocol's own goroutine cannot be recovered: leave the input behind
		s.c.Begin(sreplay{name, vh.Hex(whole), fmt.Sprint(len(segs)), "crash"})
		calls, errored, ok := runProto(segs)
		if !ok {
			// the harness could not synchronise with the protocol's goroutines (overloaded machine):
			// no verdict for this stream; after three of them the scanner stops instead of eating the time budget
			s.c.Res.Count("", false, "scan:proto-sync-failed")
			if failed++; failed >= 3 {
				s.c.Res.Notes = append(s.c.Res.Notes, "protocol.readLoop correspondence stopped early: three streams could not be synchronised (machine overloaded)")
				return
			}
			continue
		}
		all := [][]byte{{0x81, 0x00}}
		all = append(all, segs...)
		for k := 0; k < protoFlush; k++ {
			all = append(all, flushSeg)
		}
		var sl, ml []string
		var flat []byte
		for _, x := range all {
			sl = append(sl, vh.Bytes(x))
		}
		for _, x := range segs {
			flat = append(flat, x...)
			flat = append(flat, '|')
		}
		for _, c := range calls {
			ml = append(ml, fmt.Sprintf("(%s, %s)", vh.N(c.ty), vh.Bytes(c.data)))
		}
		s.add(name, flat, fmt.Sprint(len(segs)), fmt.Sprintf("%d messages, error %v", len(calls), errored),
			fmt.Sprintf("(CProto %s %s %s %s)", vh.List(sl), vh.Nat(1+len(segs)), vh.List(ml), vh.Bool(errored)))
	}
}

// libLimit reports whether a sequential well-formedness scan of b (item after
// item, as the read loop consumes the buffer) meets one of the library's
// resource rules before it runs out of data or meets malformed input: an
// array / map header above MaxArrayElements / MaxMapPairs (10^7) or a string
// length that overflows int.  The model's stand-in for the library (the Lib
// parser) answers "need more data" there, the library answers with an error;
// such streams are left out of the correspondence (they are fuzzed in part b).
func libLimit(b []byte) bool {
	hit := false
	var item func(p, depth int) int // returns the next position, or -1 (out of data / malformed / limit)
	item = func(p, depth int) int {
		if p >= len(b) || depth > 200 {
			if depth > 200 {
				hit = true
			}
			return -1
		}
		mt, ai := b[p]>>5, b[p]&31
		if ai == 31 {
			if mt == 0 || mt == 1 || mt == 6 || mt == 7 {
				return -1
			}
			q := p + 1
			for {
				if q >= len(b) {
					return -1
				}
				if b[q] == 0xff {
					return q + 1
				}
				if q = item(q, depth+1); q < 0 {
					return -1
				}
			}
		}
		n := argLen(ai)
		if n < 0 || p+1+n > len(b) {
			return -1
		}
		v := argVal(b[p+1:], n, ai)
		q := p + 1 + n
		switch mt {
		case 0, 1, 7:
			return q
		case 2, 3:
			if v >= 1<<62 {
				hit = true
				return -1
			}
			if v > uint64(len(b)-q) {
				return -1
			}
			return q + int(v)
		case 4, 5:
			if v > 10_000_000 {
				hit = true
				return -1
			}
			cnt := v
			if mt == 5 {
				cnt *= 2
			}
			for i := uint64(0); i < cnt; i++ {
				if q = item(q, depth+1); q < 0 {
					return -1
				}
			}
			return q
		default:
			return item(q, depth+1)
		}
	}
	for p := 0; p >= 0 && p < len(b); {
		p = item(p, 0)
	}
	return hit
}
