// C02 part (a), second half - the unexported offset walkers of
// ledger/common (extractMetadataOffsets, extractDatumOffsets,
// extractRedeemer{Map,Array}Offsets, extractScriptArrayOffsets,
// extractWitnessComponentOffsets, both extractOutputOffsets, cborSkipTags,
// cborArrayHeaderSizeOf) and cbor.cborArrayHeaderSizeFromBytes are tied to the
// Coq model through the EXPORTED entry points that reach them:
//
//	common.ExtractTransactionOffsets, StreamingBlockDecoder.DecodeWithOffsets  -> COffsets
//	common.Extract{TransactionBody,Witness,Output}Cbor                         -> CCbor
//	cbor.StreamDecoder.DecodeArrayItems                                         -> CItems
//
// Observables: error / no error and every returned offset (the hash-keyed maps
// as value lists).  Inputs are well-formed blocks (a malformed block is refused
// by the first cbor.Decode and never reaches a walker): small blocks cut out of
// the real fixtures and synthetic Shelley-shaped blocks, re-encoded with every
// header form and mutated at the level of the item tree (exotic map keys,
// tag wrappers, wrong element kinds, duplicated keys, count mismatches, 32-bit
// truncation of indices); plus truncated / trailing-data variants.
package main

import (
	"fmt"
	"math"
	"sort"

	"github.com/blinklabs-io/gouroboros/cbor"
	"github.com/blinklabs-io/gouroboros/ledger/common"

	"verifharness/vh"
)

// ---- item-tree helpers ---------------------------------------------------------

// modelled reports whether the model's account of fxamacker's typed
// destinations covers the tree: no tag 0..5 (content rules, bignums) and no
// self-described tag 55799 (the library strips it from RawMessage elements),
// moderate nesting.
func modelled(it *vh.Item, depth int) bool {
	if depth > 24 {
		return false
	}
	if it.K == vh.KTag && (it.N <= 5 || it.N == 55799) {
		return false
	}
	for _, x := range it.Xs {
		if !modelled(x, depth+1) {
			return false
		}
	}
	return true
}

func simple(v uint64) *vh.Item {
	if v < 24 {
		return &vh.Item{K: vh.KSimple, F: vh.Fimm, N: v}
	}
	return &vh.Item{K: vh.KSimple, F: vh.F1, N: v}
}

// exoticKey: what a map key / an integer position may be replaced with
func exoticKey(r *vh.Rng, k uint64) *vh.Item {
	switch r.Intn(14) {
	case 0:
		return vh.Null()
	case 1:
		return simple(23) // undefined
	case 2:
		return simple(uint64(r.Intn(20))) // a simple value: decodes as its number
	case 3:
		return simple(uint64(32 + r.Intn(224)))
	case 4:
		return vh.TagOf(vh.PickOne(r, []uint64{6, 24, 30, 258, 1 << 40}), vh.U(k))
	case 5:
		return vh.TagOf(7, vh.TagOf(300, vh.U(k)))
	case 6:
		return vh.NI(k)
	case 7:
		return vh.T("k")
	case 8:
		return vh.BoolItem(r.Bool())
	case 9:
		return &vh.Item{K: vh.KFloat, F: vh.F2, N: 0x3c00}
	case 10:
		return &vh.Item{K: vh.KUInt, F: vh.PickOne(r, []vh.Form{vh.F1, vh.F2, vh.F4, vh.F8}), N: k}
	case 11:
		return vh.U(k + vh.PickOne(r, []uint64{1 << 32, 1 << 8, 1<<32 + 1}))
	case 12:
		return vh.A(vh.U(k))
	default:
		return vh.TagOf(24, vh.Null())
	}
}

func wrapTags(r *vh.Rng, x *vh.Item) *vh.Item {
	switch r.Intn(5) {
	case 0:
		return vh.TagOf(258, x)
	case 1:
		return vh.TagOf(258, vh.TagOf(258, x))
	case 2:
		t := vh.TagOf(258, x)
		t.F = vh.PickOne(r, []vh.Form{vh.F4, vh.F8})
		return t
	case 3:
		return vh.TagOf(uint64(6+r.Intn(17)), vh.TagOf(1<<33, x))
	default:
		return vh.TagOf(24, x)
	}
}

// stub header: the walkers only measure blockArray[0]
func stubHeader(r *vh.Rng) *vh.Item {
	return vh.A(vh.A(vh.U(uint64(r.Intn(100000))), vh.B(r.Bytes(8))), vh.B(r.Bytes(4)))
}

// smallBlocks cuts blocks of 1..2 small transactions out of a real fixture
func smallBlocks(r *vh.Rng, raw []byte, max int) []*vh.Item {
	top, n, err := vh.ParseItem(raw)
	if err != nil || n != len(raw) || top.K != vh.KArr || len(top.Xs) < 4 {
		return nil
	}
	bodies, wits, aux := top.Xs[1], top.Xs[2], top.Xs[3]
	if bodies.K != vh.KArr || wits.K != vh.KArr || len(bodies.Xs) != len(wits.Xs) || len(bodies.Xs) == 0 {
		return nil
	}
	type cand struct{ i, size int }
	var cs []cand
	for i := range bodies.Xs {
		cs = append(cs, cand{i, len(bodies.Xs[i].Enc()) + len(wits.Xs[i].Enc())})
	}
	sort.Slice(cs, func(a, b int) bool { return cs[a].size < cs[b].size })
	auxOf := func(i int) *vh.Item {
		if aux.K != vh.KMap {
			return nil
		}
		for k := 0; k+1 < len(aux.Xs); k += 2 {
			if aux.Xs[k].K == vh.KUInt && int(aux.Xs[k].N) == i {
				return aux.Xs[k+1]
			}
		}
		return nil
	}
	var out []*vh.Item
	mk := func(idx []int) {
		var bs, ws, ax []*vh.Item
		for j, i := range idx {
			bs = append(bs, bodies.Xs[i].Clone())
			ws = append(ws, wits.Xs[i].Clone())
			if a := auxOf(i); a != nil && len(a.Enc()) < 600 {
				ax = append(ax, vh.U(uint64(j)), a.Clone())
			}
		}
		parts := []*vh.Item{stubHeader(r), vh.A(bs...), vh.A(ws...), vh.M(ax...)}
		for _, x := range top.Xs[4:] {
			parts = append(parts, vh.A())
			_ = x
		}
		blk := vh.A(parts...)
		if len(blk.Enc()) <= max {
			out = append(out, blk)
		}
	}
	// the transactions that carry witness components / metadata first
	rich := func(i int) bool {
		w := wits.Xs[i]
		if w.K != vh.KMap {
			return false
		}
		for k := 0; k+1 < len(w.Xs); k += 2 {
			if w.Xs[k].K == vh.KUInt && w.Xs[k].N >= 1 && w.Xs[k].N != 2 {
				return true
			}
		}
		return auxOf(i) != nil
	}
	var richIdx []int
	for _, c := range cs {
		if rich(c.i) {
			richIdx = append(richIdx, c.i)
		}
	}
	mk([]int{cs[0].i})
	if len(cs) > 1 {
		mk([]int{cs[0].i, cs[1].i})
	}
	for k := 0; k < len(richIdx) && k < 3; k++ {
		mk([]int{richIdx[k]})
		mk([]int{cs[0].i, richIdx[k]})
	}
	return out
}

// synthItem is synthBlock (corpus.go) as a tree, with richer witness sets
func synthItem(r *vh.Rng) *vh.Item {
	b := synthBlock(r)
	it, _, err := vh.ParseItem(b)
	if err != nil {
		return vh.A(stubHeader(r), vh.A(), vh.A(), vh.M())
	}
	return it
}

// paths to the interesting places of a Shelley-shaped block tree
func mapEntries(m *vh.Item) int {
	if m == nil || m.K != vh.KMap {
		return 0
	}
	return len(m.Xs) / 2
}

func findKey(m *vh.Item, k uint64) int {
	if m == nil || m.K != vh.KMap {
		return -1
	}
	for i := 0; i+1 < len(m.Xs); i += 2 {
		if m.Xs[i].K == vh.KUInt && m.Xs[i].N == k {
			return i
		}
	}
	return -1
}

// mutateBlock applies one tree-level mutation; it returns the class
func mutateBlock(r *vh.Rng, blk *vh.Item) string {
	if blk.K != vh.KArr || len(blk.Xs) < 4 {
		return "as-is"
	}
	bodies, wits, aux := blk.Xs[1], blk.Xs[2], blk.Xs[3]
	pickBody := func() *vh.Item {
		if bodies.K == vh.KArr && len(bodies.Xs) > 0 {
			return bodies.Xs[r.Intn(len(bodies.Xs))]
		}
		return nil
	}
	pickWit := func() *vh.Item {
		if wits.K == vh.KArr && len(wits.Xs) > 0 {
			return wits.Xs[r.Intn(len(wits.Xs))]
		}
		return nil
	}
	switch r.Intn(20) {
	case 0: // exotic key somewhere in a body
		if b := pickBody(); mapEntries(b) > 0 {
			i := 2 * r.Intn(mapEntries(b))
			b.Xs[i] = exoticKey(r, b.Xs[i].N)
			return "body-key"
		}
	case 1: // the outputs key itself in another representation (null = 0, simple 1, tagged 1, wide 1)
		if b := pickBody(); b != nil {
			if i := findKey(b, 1); i >= 0 {
				b.Xs[i] = vh.PickOne(r, []*vh.Item{simple(1), vh.TagOf(6, vh.U(1)), {K: vh.KUInt, F: vh.F8, N: 1}, vh.TagOf(258, vh.TagOf(7, vh.U(1))), vh.Null(), vh.NI(1)})
				return "outputs-key-form"
			}
		}
	case 2: // outputs value of another kind
		if b := pickBody(); b != nil {
			if i := findKey(b, 1); i >= 0 {
				v := b.Xs[i+1]
				b.Xs[i+1] = vh.PickOne(r, []*vh.Item{vh.Null(), simple(23), wrapTags(r, v), vh.M(vh.U(0), vh.U(1)), vh.U(7), vh.A(), vh.TagOf(24, vh.Null()), vh.B([]byte{0x80}), vh.A(vh.U(1), vh.B([]byte{1, 2}), vh.A(), vh.M())})
				return "outputs-value"
			}
		}
	case 3: // a second key-1 entry / key 1 first
		if b := pickBody(); mapEntries(b) > 0 {
			extra := []*vh.Item{vh.U(1), vh.A(vh.A(vh.B(r.Bytes(3)), vh.U(1)))}
			if r.Bool() {
				b.Xs = append(extra, b.Xs...)
			} else {
				b.Xs = append(b.Xs, extra...)
			}
			return "outputs-dup-key"
		}
	case 4: // a body that is not a map
		if bodies.K == vh.KArr && len(bodies.Xs) > 0 {
			bodies.Xs[r.Intn(len(bodies.Xs))] = vh.PickOne(r, []*vh.Item{vh.U(3), vh.A(vh.U(1), vh.U(2)), vh.M(), vh.Null(), vh.B(r.Bytes(4)), vh.TagOf(6, vh.M(vh.U(1), vh.A()))})
			return "body-kind"
		}
	case 5: // exotic key in a witness set
		if w := pickWit(); mapEntries(w) > 0 {
			i := 2 * r.Intn(mapEntries(w))
			w.Xs[i] = exoticKey(r, w.Xs[i].N)
			return "witness-key"
		}
	case 6: // a witness component under tag wrappers
		if w := pickWit(); mapEntries(w) > 0 {
			i := 2 * r.Intn(mapEntries(w))
			w.Xs[i+1] = wrapTags(r, w.Xs[i+1])
			return "witness-tagged"
		}
	case 7: // a witness component of another kind
		if w := pickWit(); mapEntries(w) > 0 {
			i := 2 * r.Intn(mapEntries(w))
			w.Xs[i+1] = vh.PickOne(r, []*vh.Item{vh.Null(), vh.U(5), vh.M(), vh.A(), vh.B(r.Bytes(3)), vh.TagOf(258, vh.Null()), vh.TagOf(258, vh.U(1)), vh.M(vh.U(0), vh.U(0)), vh.T("x")})
			return "witness-value-kind"
		}
	case 8: // the same component key twice (identical and different content)
		if w := pickWit(); mapEntries(w) > 0 {
			i := 2 * r.Intn(mapEntries(w))
			w.Xs = append(w.Xs, w.Xs[i].Clone(), w.Xs[i+1].Clone())
			if r.Bool() {
				w.Xs = append(w.Xs, w.Xs[i].Clone(), vh.A(vh.U(uint64(r.Intn(9)))))
			}
			return "witness-dup-key"
		}
	case 9: // redeemers in both layouts with edge elements
		if w := pickWit(); w != nil && w.K == vh.KMap {
			el := func() *vh.Item {
				switch r.Intn(9) {
				case 0:
					return vh.A()
				case 1:
					return vh.U(5)
				case 2:
					return vh.A(vh.U(1))
				case 3:
					return vh.A(vh.U(1), vh.U(2))
				case 4:
					return vh.A(vh.NI(1), vh.U(2), vh.U(3), vh.A())
				case 5:
					return vh.A(vh.U(300), vh.U(1<<32+2), vh.B(r.Bytes(3)), vh.A(vh.U(1), vh.U(2)))
				case 6:
					return vh.A(vh.Null(), simple(9), vh.M(), vh.A())
				case 7:
					return vh.M(vh.U(1), vh.U(2))
				default:
					return vh.A(vh.U(uint64(r.Intn(4))), vh.U(uint64(r.Intn(3))), vh.RandItem(r, 1), vh.A(vh.U(1), vh.U(2)))
				}
			}
			var red *vh.Item
			if r.Bool() {
				xs := make([]*vh.Item, 1+r.Intn(4))
				for i := range xs {
					xs[i] = el()
				}
				red = vh.A(xs...)
			} else {
				var kv []*vh.Item
				for i := 1 + r.Intn(3); i > 0; i-- {
					key := vh.PickOne(r, []*vh.Item{vh.A(vh.U(uint64(r.Intn(4))), vh.U(uint64(r.Intn(3)))), vh.A(vh.U(1)), vh.A(vh.U(256), vh.U(1 << 32), vh.U(9)), vh.A(vh.Null(), vh.U(1)), vh.U(3), vh.Null(), vh.A(vh.T("a"), vh.U(1)), vh.TagOf(6, vh.A(vh.U(2), vh.U(2)))})
					kv = append(kv, key, vh.PickOne(r, []*vh.Item{vh.A(vh.RandItem(r, 1), vh.A(vh.U(1), vh.U(2))), vh.A(), vh.U(1), vh.M(), vh.A(vh.U(7))}))
				}
				red = vh.M(kv...)
			}
			if i := findKey(w, 5); i >= 0 {
				w.Xs[i+1] = red
			} else {
				w.Xs = append(w.Xs, vh.U(5), red)
			}
			return "redeemers"
		}
	case 10: // metadata map with edge keys
		if aux.K == vh.KMap {
			aux.Xs = append(aux.Xs, vh.PickOne(r, []*vh.Item{vh.U(1 << 32), vh.U(1<<32 + 1), vh.Null(), vh.T("x"), vh.NI(0), simple(1), vh.TagOf(9, vh.U(0)), vh.U(0)}), vh.RandItem(r, 1))
			if r.Bool() {
				aux.Xs = append(aux.Xs, vh.U(0), vh.U(uint64(r.Intn(50))))
			}
			return "metadata-keys"
		}
	case 11: // metadata of another kind
		blk.Xs[3] = vh.PickOne(r, []*vh.Item{vh.Null(), vh.A(), vh.U(1), vh.M(), vh.TagOf(259, vh.M(vh.U(0), vh.U(1))), vh.B([]byte{1, 2, 3})})
		return "metadata-kind"
	case 12: // bodies / witnesses arrays of another kind
		blk.Xs[1+r.Intn(2)] = vh.PickOne(r, []*vh.Item{vh.Null(), vh.M(), vh.U(2), wrapTags(r, blk.Xs[1].Clone()), vh.A()})
		return "segment-kind"
	case 13: // count mismatch between bodies and witness sets
		if wits.K == vh.KArr {
			if r.Bool() && len(wits.Xs) > 0 {
				wits.Xs = wits.Xs[:len(wits.Xs)-1]
			} else {
				wits.Xs = append(wits.Xs, vh.M())
			}
			return "count-mismatch"
		}
	case 14: // fewer / more top-level elements (EBB-like, two elements, ...)
		switch r.Intn(4) {
		case 0:
			blk.Xs = blk.Xs[:3]
		case 1:
			blk.Xs = blk.Xs[:2]
		case 2:
			blk.Xs = append(blk.Xs, vh.A(), vh.U(1))
		default:
			blk.Xs = blk.Xs[:r.Intn(2)]
		}
		return "top-arity"
	case 15: // the whole block under a tag / not an array
		*blk = *vh.PickOne(r, []*vh.Item{wrapTags(r, blk.Clone()), vh.Null(), vh.M(vh.U(0), blk.Clone())})
		return "top-kind"
	case 16: // scripts arrays with elements of every kind
		if w := pickWit(); w != nil && w.K == vh.KMap {
			xs := make([]*vh.Item, r.Intn(4))
			for i := range xs {
				xs[i] = vh.RandItem(r, 1)
				if !modelled(xs[i], 0) {
					xs[i] = vh.B(r.Bytes(3))
				}
			}
			if len(xs) > 1 && r.Bool() {
				xs[len(xs)-1] = xs[0].Clone() // identical scripts: one map entry
			}
			arr := vh.A(xs...)
			if r.Intn(3) == 0 {
				arr.F = vh.Findef
			}
			var v *vh.Item = arr
			if r.Bool() {
				v = wrapTags(r, arr)
			}
			w.Xs = append(w.Xs, vh.U(vh.PickOne(r, []uint64{1, 3, 6, 7, 8})), v)
			return "scripts"
		}
	case 17: // datums with duplicates and tag wrappers
		if w := pickWit(); w != nil && w.K == vh.KMap {
			xs := make([]*vh.Item, 1+r.Intn(4))
			for i := range xs {
				xs[i] = vh.PickOne(r, []*vh.Item{vh.U(uint64(r.Intn(3))), vh.B(r.Bytes(2)), vh.A(vh.U(1)), vh.TagOf(121, vh.A())})
			}
			arr := vh.A(xs...)
			if r.Intn(3) == 0 {
				arr.F = vh.Findef
			}
			var v *vh.Item = arr
			if r.Intn(3) != 0 {
				v = wrapTags(r, arr)
			}
			w.Xs = append(w.Xs, vh.U(4), v)
			return "datums"
		}
	case 18: // an output that does not start like an output (exercises the backward adjustment)
		if b := pickBody(); b != nil {
			if i := findKey(b, 1); i >= 0 && b.Xs[i+1].K == vh.KArr {
				outs := b.Xs[i+1]
				outs.Xs = append(outs.Xs, vh.PickOne(r, []*vh.Item{vh.U(0x80), vh.B([]byte{0xa0}), vh.U(1), vh.T("o"), vh.TagOf(6, vh.A())}), vh.A(vh.U(1)))
				if outs.F != vh.Findef {
					outs.F = vh.MinForm(uint64(len(outs.Xs)))
				}
				return "output-starts"
			}
		}
	case 19: // a witness set that is not a map / is tiny
		if wits.K == vh.KArr && len(wits.Xs) > 0 {
			wits.Xs[r.Intn(len(wits.Xs))] = vh.PickOne(r, []*vh.Item{vh.M(), vh.U(1), vh.A(vh.U(4), vh.A()), vh.Null(), vh.TagOf(6, vh.M(vh.U(4), vh.A(vh.U(1))))})
			return "witness-kind"
		}
	}
	return "as-is"
}

var reformSets = []vh.ReformOpts{
	{},
	{Containers: true, Prob: 100, MaxDepth: 1},
	{Containers: true, Indef: true, Prob: 70},
	{Containers: true, Ints: true, Tags: true, Indef: true, Prob: 40},
	{Containers: true, Ints: true, Strings: true, Tags: true, Indef: true, IndefStrings: true, Prob: 25},
}

// fix the header forms that no longer fit after a tree mutation
func refit(it *vh.Item) {
	switch it.K {
	case vh.KArr:
		if it.F != vh.Findef && !vh.Fits(it.F, uint64(len(it.Xs))) {
			it.F = vh.MinForm(uint64(len(it.Xs)))
		}
	case vh.KMap:
		if it.F != vh.Findef && !vh.Fits(it.F, uint64(len(it.Xs)/2)) {
			it.F = vh.MinForm(uint64(len(it.Xs) / 2))
		}
	}
	for _, x := range it.Xs {
		refit(x)
	}
}

// ---- observation ---------------------------------------------------------------

func rng(b common.ByteRange) string {
	return fmt.Sprintf("(%s, %s)", vh.N(uint64(b.Offset)), vh.N(uint64(b.Length)))
}

func obsOffsets(offs *common.BlockTransactionOffsets) string {
	var txs []string
	for _, t := range offs.Transactions {
		var outs, comps []string
		for _, o := range t.Outputs {
			outs = append(outs, rng(o))
		}
		type oc struct {
			kind, a, b uint64
			r          common.ByteRange
		}
		var cs []oc
		for _, d := range t.Datums {
			cs = append(cs, oc{0, 0, 0, d})
		}
		for k, d := range t.Redeemers {
			cs = append(cs, oc{1, uint64(k.Tag), uint64(k.Index), d})
		}
		for _, d := range t.Scripts {
			cs = append(cs, oc{2, 0, 0, d})
		}
		sort.Slice(cs, func(i, j int) bool {
			x, y := cs[i], cs[j]
			if x.kind != y.kind {
				return x.kind < y.kind
			}
			if x.r.Offset != y.r.Offset {
				return x.r.Offset < y.r.Offset
			}
			if x.r.Length != y.r.Length {
				return x.r.Length < y.r.Length
			}
			if x.a != y.a {
				return x.a < y.a
			}
			return x.b < y.b
		})
		for _, c := range cs {
			comps = append(comps, fmt.Sprintf("(%s, %s, %s, %s)", vh.N(c.kind), vh.N(c.a), vh.N(c.b), rng(c.r)))
		}
		txs = append(txs, fmt.Sprintf("(%s, %s, %s, %s, %s)", rng(t.Body), rng(t.Witness), rng(t.Metadata), vh.List(outs), vh.List(comps)))
	}
	return vh.List(txs)
}

// one block through both walkers
func (s *scanner) offsetsCase(b []byte, class string) {
	for _, streaming := range []bool{false, true} {
		name := "common.ExtractTransactionOffsets"
		if streaming {
			name = "common.StreamingBlockDecoder.DecodeWithOffsets"
		}
		var offs *common.BlockTransactionOffsets
		var err error
		rp := sreplay{name, vh.Hex(b), class, ""}
		p, pv := vh.Recover(func() {
			if streaming {
				var d *common.StreamingBlockDecoder
				if d, err = common.NewStreamingBlockDecoder(b); err == nil {
					offs, err = d.DecodeWithOffsets()
				}
			} else {
				offs, err = common.ExtractTransactionOffsets(b)
			}
		})
		if p {
			s.c.Res.Violate("monitor", name+":panic", fmt.Sprintf("%s panicked on %x (%s): %v", name, b, class, pv), rp)
			continue
		}
		res := "None"
		got := "error"
		if err == nil && offs != nil {
			res = "(Some " + obsOffsets(offs) + ")"
			got = fmt.Sprintf("%d txs", len(offs.Transactions))
			// independent monitor: every range the walkers return lies inside the block
			// or the Extract*Cbor accessors refuse it (never a panic)
			s.extractAll(b, offs)
		}
		if s.c.Res.Distribution == nil {
			s.c.Res.Distribution = map[string]int{}
		}
		s.c.Res.Distribution["offsets:"+class]++
		s.add(name, b, class, got, fmt.Sprintf("(COffsets %s %s %s)", vh.Bool(streaming), vh.Bytes(b), res))
	}
}

// extractAll runs the three Extract*Cbor accessors over everything the walker returned
func (s *scanner) extractAll(b []byte, offs *common.BlockTransactionOffsets) {
	p, pv := vh.Recover(func() {
		for i, t := range offs.Transactions {
			_, _ = common.ExtractTransactionBodyCbor(b, offs, i)
			_, _ = common.ExtractWitnessCbor(b, offs, i)
			for j := range t.Outputs {
				_, _ = common.ExtractOutputCbor(b, offs, i, j)
			}
		}
		_, _ = common.ExtractTransactionBodyCbor(b, offs, len(offs.Transactions))
		_, _ = common.ExtractOutputCbor(b, offs, 0, math.MaxInt)
		_, _ = common.ExtractWitnessCbor(b, offs, -1)
	})
	if p {
		s.c.Res.Violate("monitor", "common.Extract*Cbor:panic", fmt.Sprintf("Extract*Cbor panicked on offsets of %x: %v", b, pv), sreplay{"common.Extract*Cbor", vh.Hex(b), "", "panic"})
	}
}

func (s *scanner) offsets(n int, cp *corpus) {
	r := s.r
	var bases []*vh.Item
	for _, era := range []string{"shelley", "allegra", "mary", "alonzo", "babbage", "conway"} {
		for _, raw := range cp.groups["block:"+era] {
			bases = append(bases, smallBlocks(r, raw, 2600)...)
		}
	}
	nReal := len(bases)
	for i := 0; i < 40; i++ {
		bases = append(bases, synthItem(r))
	}
	// the other two layouts ExtractTransactionOffsets knows: Byron main blocks (the real fixture and
	// synthetic ones) and Dijkstra blocks
	nShelley := len(bases)
	for _, raw := range cp.groups["block:byron"] {
		if it, n, err := vh.ParseItem(raw); err == nil && n == len(raw) && len(raw) < 3000 {
			bases = append(bases, it)
		}
	}
	for i := 0; i < 12; i++ {
		bases = append(bases, byronItem(r), dijkstraItem(r))
	}
	emit := func(it *vh.Item, class string) {
		refit(it)
		if !modelled(it, 0) {
			s.c.Res.Count("", false, "scan:skipped-library-rule")
			return
		}
		b := it.Enc()
		if len(b) > 3000 {
			return
		}
		s.offsetsCase(b, class)
	}
	walkFile := s.cf
	s.cf = s.c.NewCaseFile("layout", scanHeader)
	s.cf.SetShardSize(110)
	for _, b := range layoutCorpus() {
		emit(b, "layout-corpus")
	}
	s.cf.Flush()
	s.cf = walkFile
	// every base as it is (capped), then mutated and re-encoded
	for i, b := range bases {
		if i < nReal && i%3 != int(s.c.Seed)%3 && !s.c.Thorough() {
			continue
		}
		emit(b.Clone(), "as-is")
	}
	for i := 0; i < n; i++ {
		var base *vh.Item
		class := "as-is"
		switch k := r.Intn(10); {
		case k < 3 && nReal > 0:
			base = bases[r.Intn(nReal)].Clone()
		case k < 8:
			base = bases[nReal+r.Intn(nShelley-nReal)].Clone()
		default:
			base = bases[nShelley+r.Intn(len(bases)-nShelley)].Clone()
			class = "layout:" + mutateAny(r, base)
		}
		for try := 0; try < 6 && class == "as-is"; try++ {
			class = mutateBlock(r, base)
		}
		if class == "as-is" || r.Intn(8) == 0 {
			class += "+" + mutateAny(r, base)
		}
		if r.Intn(4) == 0 {
			if c2 := mutateBlock(r, base); c2 != "as-is" {
				class += "+" + c2
			}
		}
		refit(base)
		it := vh.Reform(r, base, reformSets[r.Intn(len(reformSets))])
		emit(it, class)
	}
	// byte-level variants of a few blocks: cut short, trailing data, one structural byte changed
	for i := 0; i < n/8+3; i++ {
		b := bases[r.Intn(len(bases))].Enc()
		if len(b) > 1500 {
			continue
		}
		switch r.Intn(3) {
		case 0:
			s.offsetsCase(b[:r.Intn(len(b))], "truncated")
		case 1:
			s.offsetsCase(append(append([]byte(nil), b...), r.Bytes(1+r.Intn(3))...), "trailing")
		default:
			c := append([]byte(nil), b...)
			c[r.Intn(min(len(c), 12))] = vh.PickOne(r, []byte{0x80, 0x84, 0x9f, 0xa0, 0xbf, 0x98, 0x00, 0xf6, 0xff})
			if it, n, err := vh.ParseItem(c); err == nil && n == len(c) && modelled(it, 0) {
				s.offsetsCase(c, "head-byte")
			} else if err != nil {
				s.offsetsCase(c, "head-byte-malformed")
			}
		}
	}
}

// ---- Extract*Cbor with hand-made offsets ------------------------------------------
func (s *scanner) extractCbor(n int) {
	r := s.r
	for i := 0; i < n; i++ {
		data := r.Bytes(r.Intn(14))
		pick := func() uint32 {
			switch r.Intn(6) {
			case 0:
				return math.MaxUint32 - uint32(r.Intn(3))
			case 1:
				return uint32(len(data)) + uint32(r.Intn(3)) - 1
			case 2:
				return 1 << 31
			default:
				return uint32(r.Intn(len(data) + 2))
			}
		}
		br := common.ByteRange{Offset: pick(), Length: pick()}
		offs := &common.BlockTransactionOffsets{Transactions: []common.TransactionLocation{{Body: br, Witness: br, Outputs: []common.ByteRange{br}}}}
		which := r.Intn(3)
		name := []string{"common.ExtractTransactionBodyCbor", "common.ExtractWitnessCbor", "common.ExtractOutputCbor"}[which]
		var got []byte
		var err error
		p, pv := vh.Recover(func() {
			switch which {
			case 0:
				got, err = common.ExtractTransactionBodyCbor(data, offs, 0)
			case 1:
				got, err = common.ExtractWitnessCbor(data, offs, 0)
			default:
				got, err = common.ExtractOutputCbor(data, offs, 0, 0)
			}
		})
		if p {
			s.c.Res.Violate("monitor", name+":panic", fmt.Sprintf("%s panicked on %x %+v: %v", name, data, br, pv), sreplay{name, vh.Hex(data), fmt.Sprint(br), "panic"})
			continue
		}
		res := "None"
		if err == nil {
			res = "(Some " + vh.Bytes(got) + ")"
		}
		s.add(name, data, fmt.Sprintf("%d,%d", br.Offset, br.Length), fmt.Sprint(err == nil),
			fmt.Sprintf("(CCbor %s %s %s %s)", vh.Bytes(data), vh.N(uint64(br.Offset)), vh.N(uint64(br.Length)), res))
	}
}

// ---- StreamDecoder.DecodeArrayItems (reaches cborArrayHeaderSizeFromBytes) -------------
func (s *scanner) arrayItems(n int) {
	r := s.r
	for i := 0; i < n; i++ {
		var it *vh.Item
		switch r.Intn(6) {
		case 0:
			it = vh.RandItem(r, 2)
		case 1:
			it = wrapTags(r, vh.A(vh.U(1), vh.B(r.Bytes(2))))
		case 2:
			it = vh.PickOne(r, []*vh.Item{vh.Null(), simple(23), vh.M(), vh.U(3)})
		default:
			xs := make([]*vh.Item, r.Intn(5))
			for j := range xs {
				xs[j] = vh.RandItem(r, 1)
			}
			it = vh.A(xs...)
			it.F = vh.PickOne(r, []vh.Form{vh.MinForm(uint64(len(xs))), vh.F1, vh.F2, vh.F4, vh.F8, vh.Findef})
		}
		if !modelled(it, 0) {
			continue
		}
		b := it.Enc()
		if r.Intn(6) == 0 {
			b = b[:r.Intn(len(b)+1)]
		}
		pre := 0
		if r.Intn(3) == 0 {
			pre = 1 + r.Intn(3)
			b = append(r.Bytes(pre), b...)
		}
		b = append(b, r.Bytes(r.Intn(3))...)
		name := "cbor.StreamDecoder.DecodeArrayItems"
		var start, total int
		var cbs []string
		var err error
		p, pv := vh.Recover(func() {
			d, e := cbor.NewStreamDecoder(b)
			if e != nil {
				err = e
				return
			}
			if pre > 0 {
				if err = d.Advance(pre); err != nil {
					return
				}
			}
			start, total, err = d.DecodeArrayItems(func(i, off, l int, data []byte) error {
				cbs = append(cbs, fmt.Sprintf("(%s, %s, %s)", vh.Nat(i), vh.Nat(off), vh.Nat(l)))
				return nil
			})
		})
		if p {
			s.c.Res.Violate("monitor", name+":panic", fmt.Sprintf("%s panicked on %x at %d: %v", name, b, pre, pv), sreplay{name, vh.Hex(b), fmt.Sprint(pre), "panic"})
			continue
		}
		res := "None"
		if err == nil {
			res = fmt.Sprintf("(Some (%s, %s, %s))", vh.Nat(start), vh.Nat(total), vh.List(cbs))
		}
		s.add(name, b, fmt.Sprint(pre), fmt.Sprintf("%d,%d,%d items,%v", start, total, len(cbs), err == nil),
			fmt.Sprintf("(CItems %s %s %s)", vh.Bytes(b), vh.Nat(pre), res))
	}
}

// ---- Byron main block and Dijkstra shapes ------------------------------------------

// byronItem: [header, [[[inputs, outputs, attrs], witnesses] ..., ssc, dlg, upd], extra]
func byronItem(r *vh.Rng) *vh.Item {
	leaf := func() *vh.Item { return vh.RandItem(r, 1) }
	n := r.Intn(4)
	pairs := make([]*vh.Item, n)
	for i := range pairs {
		outs := make([]*vh.Item, r.Intn(4))
		for j := range outs {
			outs[j] = vh.A(vh.A(vh.TagOf(24, vh.B(r.Bytes(5))), vh.U(uint64(r.Intn(9)))), vh.U(uint64(r.Intn(100000))))
		}
		ins := vh.A(vh.A(vh.U(0), vh.TagOf(24, vh.B(r.Bytes(6)))))
		if r.Intn(3) == 0 {
			ins.F = vh.Findef
		}
		body := vh.A(ins, vh.A(outs...), vh.M())
		switch r.Intn(12) { // body arity / outputs kind at the edges of the guards
		case 0:
			body = vh.A(ins)
		case 1:
			body = vh.A()
		case 2:
			body = vh.A(ins, vh.Null(), vh.M())
		case 3:
			body = vh.A(ins, wrapTags(r, vh.A(outs...)))
		}
		pairs[i] = vh.A(body, vh.A(vh.A(vh.U(0), vh.TagOf(24, vh.B(r.Bytes(4))))))
		if i > 0 {
			switch r.Intn(12) { // pair arity (the first pair decides isByronBlock)
			case 0:
				pairs[i] = vh.A(body)
			case 1:
				pairs[i] = vh.A(body, vh.A(), vh.U(1))
			case 2:
				pairs[i] = vh.U(7)
			}
		}
	}
	return vh.A(stubHeader(r), vh.A(vh.A(pairs...), leaf(), vh.A(), vh.A()), vh.A(vh.M()))
}

// dijkstraItem: [header, [invalid/nil, [[body, witness_set, aux/nil] ...], nil, nil]]
func dijkstraItem(r *vh.Rng) *vh.Item {
	n := r.Intn(4)
	txs := make([]*vh.Item, n)
	sb := synthItem(r)
	for i := range txs {
		body, wit := vh.M(vh.U(1), vh.A(vh.A(vh.B(r.Bytes(4)), vh.U(1)))), vh.M()
		if sb.K == vh.KArr && len(sb.Xs) >= 3 && sb.Xs[1].K == vh.KArr && len(sb.Xs[1].Xs) > 0 && sb.Xs[2].K == vh.KArr && len(sb.Xs[2].Xs) > 0 {
			body = sb.Xs[1].Xs[r.Intn(len(sb.Xs[1].Xs))].Clone()
			wit = sb.Xs[2].Xs[r.Intn(len(sb.Xs[2].Xs))].Clone()
		}
		aux := vh.Null()
		if r.Bool() {
			aux = vh.PickOne(r, []*vh.Item{vh.M(vh.U(1), vh.T("m")), vh.U(0), vh.A(), simple(23), vh.TagOf(259, vh.M())})
		}
		txs[i] = vh.A(body, wit, aux)
		if i > 0 {
			switch r.Intn(14) { // transaction arity / kind (the first one decides isDijkstraBlock)
			case 0:
				txs[i] = vh.A(body, wit)
			case 1:
				txs[i] = vh.A(body, wit, aux, vh.U(0))
			case 2:
				txs[i] = wrapTags(r, vh.A(body, wit, aux))
			case 3:
				txs[i] = vh.Null()
			}
		}
	}
	inv := vh.Null()
	if r.Bool() {
		inv = vh.A(vh.U(0))
	}
	return vh.A(stubHeader(r), vh.A(inv, vh.A(txs...), vh.Null(), vh.Null()))
}

// nodes lists every node of the tree with its parent and index
type nodeRef struct {
	parent *vh.Item
	idx    int
}

func nodes(it *vh.Item, out *[]nodeRef) {
	for i, x := range it.Xs {
		*out = append(*out, nodeRef{it, i})
		nodes(x, out)
	}
}

// mutateAny: a generic tree mutation (any shape)
func mutateAny(r *vh.Rng, it *vh.Item) string {
	var ns []nodeRef
	nodes(it, &ns)
	if len(ns) == 0 {
		return "as-is"
	}
	n := ns[r.Intn(len(ns))]
	if r.Intn(3) == 0 {
		// prefer a node near the top (the layout tests look at the first levels)
		n = ns[r.Intn(min(len(ns), 8))]
	}
	old := n.parent.Xs[n.idx]
	switch r.Intn(8) {
	case 0:
		n.parent.Xs[n.idx] = vh.Null()
		return "any-null"
	case 1:
		n.parent.Xs[n.idx] = wrapTags(r, old)
		return "any-tagged"
	case 2:
		n.parent.Xs[n.idx] = exoticKey(r, old.N)
		return "any-exotic"
	case 3:
		n.parent.Xs[n.idx] = vh.PickOne(r, []*vh.Item{vh.A(), vh.M(), vh.U(3), vh.B(r.Bytes(2)), vh.A(vh.U(1), vh.U(2)), vh.A(vh.A(), vh.A(), vh.A())})
		return "any-kind"
	case 4:
		if n.parent.K == vh.KArr {
			n.parent.Xs = append(n.parent.Xs[:n.idx], n.parent.Xs[n.idx+1:]...)
			return "any-drop"
		}
	case 5:
		if n.parent.K == vh.KArr {
			n.parent.Xs = append(n.parent.Xs, old.Clone())
			return "any-dup"
		}
	case 6:
		if old.K == vh.KArr || old.K == vh.KMap {
			old.F = vh.PickOne(r, []vh.Form{vh.F1, vh.F2, vh.F4, vh.F8, vh.Findef})
			return "any-header-form"
		}
	}
	return "as-is"
}

// layoutCorpus: a fixed, seed-independent set of tiny blocks at the edges of the
// arity / kind guards of the three layouts (run in every tier)
func layoutCorpus() []*vh.Item {
	h := vh.A(vh.U(1))
	wit := vh.A(vh.A(vh.U(0), vh.B([]byte{9})))
	in := vh.A(vh.A(vh.U(0), vh.B([]byte{1})))
	out := vh.A(vh.B([]byte{2}), vh.U(3))
	var blocks []*vh.Item
	byron := func(pairs ...*vh.Item) *vh.Item {
		return vh.A(h.Clone(), vh.A(vh.A(pairs...), vh.A(), vh.A(), vh.A()), vh.A())
	}
	good := func() *vh.Item { return vh.A(vh.A(in.Clone(), vh.A(out.Clone()), vh.M()), wit.Clone()) }
	// Byron: transaction body arity 0..4, outputs of other kinds, pair arity 1..3 (after a first good pair)
	for _, body := range []*vh.Item{vh.A(), vh.A(in.Clone()), vh.A(in.Clone(), vh.A(out.Clone())), vh.A(in.Clone(), vh.A(out.Clone(), out.Clone()), vh.M(), vh.U(0)),
		vh.A(in.Clone(), vh.A(), vh.M()), vh.A(in.Clone(), vh.Null(), vh.M()), vh.A(in.Clone(), vh.U(1), vh.M()), vh.A(in.Clone(), vh.TagOf(258, vh.A(out.Clone())), vh.M()),
		vh.U(5), vh.M(), vh.Null(), vh.B([]byte{0x82, 0x80, 0x80})} {
		blocks = append(blocks, byron(vh.A(body, wit.Clone())), byron(good(), vh.A(body.Clone(), wit.Clone())))
	}
	for _, second := range []*vh.Item{vh.A(vh.A(in.Clone(), vh.A(out.Clone()), vh.M())), vh.A(vh.A(in.Clone(), vh.A(out.Clone()), vh.M()), wit.Clone(), vh.U(1)), vh.A(), vh.U(1), vh.Null(), vh.TagOf(6, good())} {
		blocks = append(blocks, byron(good(), second), byron(second.Clone()))
	}
	// Byron: body parts arity 3..5 / kinds
	blocks = append(blocks,
		vh.A(h.Clone(), vh.A(vh.A(good()), vh.A(), vh.A()), vh.A()),
		vh.A(h.Clone(), vh.A(vh.A(good()), vh.A(), vh.A(), vh.A(), vh.A()), vh.A()),
		vh.A(h.Clone(), vh.A(vh.Null(), vh.A(), vh.A(), vh.A()), vh.A()),
		vh.A(h.Clone(), vh.TagOf(6, vh.A(vh.A(good()), vh.A(), vh.A(), vh.A())), vh.A()),
		vh.A(h.Clone(), vh.A(vh.U(1), vh.A(), vh.A(), vh.A()), vh.A()))
	// Dijkstra: transaction arity 2..4, auxiliary data of one byte, tags, body parts arity
	body := vh.M(vh.U(0), vh.A(), vh.U(1), vh.A(out.Clone()))
	ws := vh.M(vh.U(4), vh.A(vh.U(7)))
	dj := func(txs ...*vh.Item) *vh.Item { return vh.A(h.Clone(), vh.A(vh.Null(), vh.A(txs...), vh.Null(), vh.Null())) }
	tx := func(aux *vh.Item) *vh.Item { return vh.A(body.Clone(), ws.Clone(), aux) }
	for _, aux := range []*vh.Item{vh.Null(), simple(23), vh.U(0), vh.M(), vh.M(vh.U(0), vh.U(1)), vh.BoolItem(false), vh.TagOf(259, vh.M())} {
		blocks = append(blocks, dj(tx(aux)), dj(tx(vh.Null()), tx(aux.Clone())))
	}
	for _, second := range []*vh.Item{vh.A(body.Clone(), ws.Clone()), vh.A(body.Clone(), ws.Clone(), vh.Null(), vh.U(1)), vh.A(), vh.Null(), vh.TagOf(6, tx(vh.Null())), vh.U(3)} {
		blocks = append(blocks, dj(tx(vh.Null()), second), dj(second.Clone()))
	}
	blocks = append(blocks,
		vh.A(h.Clone(), vh.A(vh.Null(), vh.A(tx(vh.Null())), vh.Null())),
		vh.A(h.Clone(), vh.A(vh.Null(), vh.A(tx(vh.Null())), vh.Null(), vh.Null(), vh.Null())),
		vh.A(h.Clone(), vh.A(vh.Null(), vh.TagOf(258, vh.A(tx(vh.Null()))), vh.Null(), vh.Null())),
		vh.A(h.Clone(), vh.TagOf(6, vh.A(vh.Null(), vh.A(tx(vh.Null())), vh.Null(), vh.Null()))),
		vh.A(h.Clone(), vh.A(vh.A(vh.U(0)), vh.A(), vh.Null(), vh.Null())),
		vh.TagOf(6, dj(tx(vh.Null()))))
	// Shelley+: top-level arity 0..6
	sh := []*vh.Item{h.Clone(), vh.A(body.Clone()), vh.A(ws.Clone()), vh.M(vh.U(0), vh.U(9)), vh.A(), vh.U(0)}
	for n := 0; n <= len(sh); n++ {
		xs := make([]*vh.Item, n)
		for i := range xs {
			xs[i] = sh[i].Clone()
		}
		blocks = append(blocks, vh.A(xs...))
	}
	// Shelley+: one transaction, the witness set / body / metadata at the edges of the walkers' guards
	d, ex := vh.B([]byte{7}), vh.A(vh.U(1), vh.U(2))
	shelley := func(b, w, aux *vh.Item) *vh.Item { return vh.A(h.Clone(), vh.A(b), vh.A(w), aux) }
	var wss []*vh.Item
	for _, key := range []*vh.Item{vh.A(), vh.A(vh.U(1)), vh.A(vh.U(1), vh.U(2)), vh.A(vh.U(1), vh.U(2), vh.U(3)), vh.A(vh.U(256), vh.U(1 << 32)),
		vh.A(vh.Null(), simple(9)), vh.A(vh.NI(0), vh.U(1)), vh.Null(), vh.U(5), vh.TagOf(6, vh.A(vh.U(3), vh.U(4)))} {
		wss = append(wss, vh.M(vh.U(5), vh.M(key, vh.A(d.Clone(), ex.Clone()))))
	}
	for _, val := range []*vh.Item{vh.A(), vh.A(d.Clone()), vh.U(7), vh.M(), vh.Null(), vh.TagOf(6, vh.A(d.Clone(), ex.Clone()))} {
		wss = append(wss, vh.M(vh.U(5), vh.M(vh.A(vh.U(0), vh.U(0)), val, vh.A(vh.U(1), vh.U(1)), vh.A(d.Clone(), ex.Clone()))))
	}
	for _, el := range []*vh.Item{vh.A(), vh.A(vh.U(1)), vh.A(vh.U(1), vh.U(2)), vh.A(vh.U(1), vh.U(2), d.Clone()), vh.A(vh.U(1), vh.U(2), d.Clone(), ex.Clone()),
		vh.U(5), vh.M(), vh.Null(), vh.A(vh.T("p"), vh.U(2), d.Clone(), ex.Clone()), vh.A(vh.U(1), vh.NI(2), d.Clone(), ex.Clone()), vh.TagOf(6, vh.A(vh.U(1), vh.U(2), d.Clone(), ex.Clone()))} {
		wss = append(wss, vh.M(vh.U(5), vh.A(el, vh.A(vh.U(3), vh.U(0), d.Clone(), ex.Clone()))))
	}
	for _, val := range []*vh.Item{vh.A(), vh.A(d.Clone(), d.Clone(), vh.U(1)), vh.TagOf(258, vh.A(d.Clone())), vh.TagOf(258, vh.TagOf(258, vh.A(d.Clone(), vh.U(2)))),
		vh.Null(), vh.U(7), vh.M(), vh.TagOf(258, vh.U(7)), vh.TagOf(258, vh.Null()), vh.B([]byte{0x81, 0x00}),
		vh.TagOf(24, vh.A(d.Clone())), vh.TagOf(6, vh.A(d.Clone())), vh.TagOf(65536, vh.A(d.Clone())), vh.TagOf(1<<33, vh.TagOf(24, vh.A(d.Clone(), d.Clone())))} {
		wss = append(wss, vh.M(vh.U(4), val))
		for _, k := range []uint64{1, 3, 6, 7, 8} {
			if k == 1 || len(wss)%3 == 0 {
				wss = append(wss, vh.M(vh.U(k), val.Clone()))
			}
		}
	}
	for _, key := range []*vh.Item{vh.Null(), simple(4), vh.TagOf(6, vh.U(4)), vh.NI(4), vh.T("4"), {K: vh.KUInt, F: vh.F8, N: 4}, vh.U(1<<32 + 4), vh.BoolItem(true)} {
		wss = append(wss, vh.M(vh.U(0), vh.A(), key, vh.A(d.Clone()), vh.U(4), vh.A(vh.U(9))))
	}
	for _, w := range wss {
		blocks = append(blocks, shelley(body.Clone(), w, vh.M()))
	}
	outs := vh.A(out.Clone(), vh.M(vh.U(0), vh.B([]byte{1}), vh.U(1), vh.U(2)))
	for _, b := range []*vh.Item{vh.M(vh.U(1), outs.Clone()), vh.M(simple(1), outs.Clone()), vh.M(vh.Null(), vh.U(0), vh.U(1), outs.Clone()), vh.M(vh.U(1), vh.Null()),
		vh.M(vh.U(1), vh.U(7)), vh.M(vh.U(1), vh.TagOf(258, outs.Clone())), vh.M(vh.NI(0), vh.U(0), vh.U(1), outs.Clone()), vh.M(vh.U(0), vh.A(), vh.TagOf(6, vh.U(1)), outs.Clone()),
		vh.M(vh.U(1), vh.A(vh.U(0x80), vh.B([]byte{0xa0}), out.Clone())), vh.M(vh.U(1), vh.A()), vh.M(vh.U(2), vh.U(1), vh.U(1), outs.Clone(), vh.U(1), vh.A()), vh.A(vh.U(1), outs.Clone()), vh.U(1)} {
		blocks = append(blocks, shelley(b, ws.Clone(), vh.M()))
	}
	for _, aux := range []*vh.Item{vh.M(vh.U(0), d.Clone()), vh.M(vh.U(1 << 32), d.Clone()), vh.M(vh.Null(), d.Clone()), vh.M(vh.NI(0), d.Clone(), vh.U(0), d.Clone()),
		vh.M(vh.U(0), d.Clone(), vh.T("x"), d.Clone()), vh.M(vh.U(0), vh.U(1), vh.U(0), vh.B([]byte{1, 2})), vh.Null(), vh.A(vh.U(0), d.Clone()), vh.TagOf(259, vh.M(vh.U(0), d.Clone())), vh.U(0)} {
		blocks = append(blocks, shelley(body.Clone(), ws.Clone(), aux))
	}
	// every one also with an indefinite-length / wide outer header
	n := len(blocks)
	for i := 0; i < n; i++ {
		if blocks[i].K == vh.KArr && i%3 == 0 {
			c := blocks[i].Clone()
			if i%2 == 0 {
				c.F = vh.Findef
			} else {
				c.F = vh.F1
			}
			blocks = append(blocks, c)
		}
	}
	return blocks
}
