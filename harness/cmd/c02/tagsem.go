// C02 part (b), "tag semantics" stream (still FUZZING, not a proof).
//
// Random bytes, truncations, byte mutations, inflation and nesting never
// produce SEMANTICALLY special values inside the tags the repository registers
// or special-cases (cbor/tags.go customTagSet: 24 wrapped CBOR, 30 rational,
// 258 set, 259 map; cbor/constructor.go: 121..127, 1280..1400, 101; the
// library's built-ins 0,1 time, 2,3 bignum, 4,5 decimal fraction / bigfloat).
// This stream builds them systematically: every integer REPRESENTATION
// (immediate, 1/2/4/8-byte argument, bignum tag 2/3 with empty / zero /
// leading-zero / huge payload, negative), zero / one / max values, wrong
// arity, wrong content type, nested tags - fed (a) standalone and wrapped in
// small containers to the generic and typed destinations, and (b) spliced
// into real encodings at the positions where such a tag (or an integer) occurs.
package main

import (
	"bytes"
	"math/big"

	"github.com/blinklabs-io/gouroboros/cbor"
	"github.com/blinklabs-io/gouroboros/ledger/alonzo"
	"github.com/blinklabs-io/gouroboros/ledger/babbage"
	"github.com/blinklabs-io/gouroboros/ledger/common"
	"github.com/blinklabs-io/gouroboros/ledger/conway"
	"github.com/blinklabs-io/gouroboros/ledger/dijkstra"
	"github.com/blinklabs-io/gouroboros/ledger/mary"
	"github.com/blinklabs-io/gouroboros/ledger/shelley"

	"verifharness/vh"
)

func cat(parts ...[]byte) []byte { return bytes.Join(parts, nil) }

func tagHead(t uint64) []byte {
	switch {
	case t < 24:
		return head(6, t, 0)
	case t < 1<<8:
		return head(6, t, 1)
	case t < 1<<16:
		return head(6, t, 2)
	case t < 1<<32:
		return head(6, t, 4)
	}
	return head(6, t, 8)
}

func bstr(b []byte) []byte {
	n := uint64(len(b))
	switch {
	case n < 24:
		return cat(head(2, n, 0), b)
	case n < 256:
		return cat(head(2, n, 1), b)
	}
	return cat(head(2, n, 2), b)
}

// intReps: encodings of the non-negative integer v (and of -1-v when neg) in
// every representation that can carry it
func intReps(v uint64, neg bool) [][]byte {
	mt := byte(0)
	bt := uint64(2)
	if neg {
		mt, bt = 1, 3
	}
	var out [][]byte
	for _, w := range []int{0, 1, 2, 4, 8} {
		ok := (w == 0 && v < 24) || (w == 1 && v < 1<<8) || (w == 2 && v < 1<<16) || (w == 4 && v < 1<<32) || w == 8
		if ok {
			out = append(out, head(mt, v, w))
		}
	}
	min := new(big.Int).SetUint64(v).Bytes() // empty for zero
	for _, pay := range [][]byte{min, cat([]byte{0}, min), cat(make([]byte, 9), min)} {
		out = append(out, cat(tagHead(bt), bstr(pay)))
	}
	// bignum payload as an indefinite-length byte string
	out = append(out, cat(tagHead(bt), []byte{0x5f}, bstr(min), []byte{0xff}))
	return out
}

// integers: the semantically interesting integers in all their representations
func integers() [][]byte {
	var out [][]byte
	for _, v := range []uint64{0, 1, 23, 24, 255, 256, 65535, 65536, 1<<32 - 1, 1 << 32, 1<<63 - 1, 1 << 63, 1<<64 - 1} {
		out = append(out, intReps(v, false)...)
		if v <= 1 || v >= 1<<63-1 {
			out = append(out, intReps(v, true)...)
		}
	}
	huge := bytes.Repeat([]byte{0xff}, 40)
	out = append(out, cat(tagHead(2), bstr(huge)), cat(tagHead(3), bstr(huge)),
		cat(tagHead(2), bstr(cat([]byte{1}, make([]byte, 8)))), // 2^64
		cat(tagHead(3), bstr(cat([]byte{1}, make([]byte, 8)))))
	return out
}

// a few representative integers (used inside cross products)
func fewInts() [][]byte {
	return [][]byte{
		{0x00}, {0x18, 0x00}, {0x1b, 0, 0, 0, 0, 0, 0, 0, 0}, {0xc2, 0x40}, {0xc2, 0x41, 0x00}, {0xc2, 0x42, 0x00, 0x00}, {0xc3, 0x40},
		{0x01}, {0x19, 0x00, 0x01}, {0xc2, 0x41, 0x01}, {0xc2, 0x42, 0x00, 0x01}, {0x20}, {0x3b, 0xff, 0xff, 0xff, 0xff, 0xff, 0xff, 0xff, 0xff},
		{0x1b, 0xff, 0xff, 0xff, 0xff, 0xff, 0xff, 0xff, 0xff}, cat([]byte{0xc2}, bstr(bytes.Repeat([]byte{0xff}, 33))), cat([]byte{0xc3}, bstr(bytes.Repeat([]byte{0xff}, 33))),
		{0xc2, 0x5f, 0x40, 0xff}, {0xc2, 0x5f, 0xff},
	}
}

// wrongs: contents of the wrong type for any tag
func wrongs() [][]byte {
	return [][]byte{
		{0x00}, {0x20}, {0x40}, {0x60}, {0x80}, {0xa0}, {0xf6}, {0xf7}, {0xf4}, {0xf9, 0x7e, 0x00}, {0xfb, 0x7f, 0xf0, 0, 0, 0, 0, 0, 0},
		{0x9f, 0xff}, {0xbf, 0xff}, {0x5f, 0xff}, {0x7f, 0xff}, {0x81, 0x00}, {0xa1, 0x00, 0x00}, {0x41, 0x00}, {0x61, 0x61}, {0xf8, 0x20},
	}
}

// tagValues: (tag number, content) pairs covering the registered / special-cased tags
func tagValues(r *vh.Rng, full bool) [][]byte {
	var out [][]byte
	add := func(t uint64, content []byte) { out = append(out, cat(tagHead(t), content)) }
	ints := fewInts()
	// ---- 30: rationals [numerator, denominator]
	for _, n := range ints {
		for _, d := range ints {
			if full || r.Intn(3) == 0 || bytes.Equal(d[:1], []byte{0xc2}) {
				add(30, cat([]byte{0x82}, n, d))
			}
		}
	}
	for _, d := range ints {
		add(30, cat([]byte{0x9f, 0x01}, d, []byte{0xff}))       // indefinite pair
		add(30, cat([]byte{0x82}, tagHead(30), []byte{0x82, 1, 2}, d)) // rational as numerator
		add(30, cat([]byte{0x82, 0x01}, tagHead(30), []byte{0x82, 1}, d))
		add(30, cat([]byte{0x83, 0x01}, d, []byte{0x00}))       // arity 3
		add(30, cat([]byte{0x81}, d))                           // arity 1
		add(30, cat([]byte{0x98, 0x02, 0x01}, d))               // non-minimal header
	}
	add(30, []byte{0x82, 0xf9, 0x3c, 0x00, 0x01})
	add(30, []byte{0x82, 0x01, 0xfb, 0, 0, 0, 0, 0, 0, 0, 0})
	add(30, []byte{0x82, 0x01, 0xf6})
	add(30, []byte{0x82, 0x41, 0x01, 0x41, 0x00})
	// ---- 2 / 3 bignums and the other built-ins with odd contents
	for _, t := range []uint64{2, 3} {
		for _, c := range [][]byte{{0x40}, {0x41, 0x00}, bstr(make([]byte, 64)), bstr(bytes.Repeat([]byte{0xff}, 300)), {0x5f, 0xff}, {0x5f, 0x40, 0x40, 0xff}, {0x5f, 0x41, 0x00, 0x41, 0x00, 0xff}} {
			add(t, c)
			add(t, cat(tagHead(t), c)) // nested bignum tags
		}
	}
	for _, t := range []uint64{0, 1, 4, 5} {
		for _, c := range [][]byte{{0x60}, {0x6a, '2', '0', '2', '0', '-', '0', '1', '-', '0', '1'}, {0x00}, {0x3b, 0xff, 0xff, 0xff, 0xff, 0xff, 0xff, 0xff, 0xff}, {0xfb, 0x7f, 0xf8, 0, 0, 0, 0, 0, 0}, {0xf9, 0xfc, 0x00},
			{0x82, 0x00, 0x00}, {0x82, 0x20, 0xc2, 0x40}, {0x82, 0x3b, 0xff, 0xff, 0xff, 0xff, 0xff, 0xff, 0xff, 0xff, 0xc3, 0x40}, {0x82, 0xc2, 0x40, 0x01}, {0x81, 0x00}, {0x83, 0, 0, 0}} {
			add(t, c)
		}
	}
	// ---- 24: wrapped CBOR
	for _, inner := range [][]byte{{}, {0x00}, {0x82, 0x01}, {0xff}, {0x1c}, {0xd8, 0x18, 0x41, 0x00}, cat(tagHead(30), []byte{0x82, 0x01, 0xc2, 0x40}), nest(0, 300, []byte{0x00}), {0x9f}} {
		add(24, bstr(inner))
		add(24, cat([]byte{0x5f}, bstr(inner), []byte{0xff}))
	}
	// ---- 258 sets / 259 maps
	for _, c := range [][]byte{{0x80}, {0x82, 0x01, 0x01}, {0x9f, 0x01, 0x01, 0xff}, {0x81, 0xd9, 0x01, 0x02, 0x80}, {0xa0}, {0xa1, 0x00, 0x00}, {0xa2, 0x00, 0x00, 0x00, 0x01},
		{0xa1, 0x80, 0x00}, {0xa1, 0xa0, 0x00}, {0xa1, 0xd9, 0x01, 0x02, 0x81, 0x00, 0x00}, {0xa1, 0xd8, 0x1e, 0x82, 0x01, 0x02, 0x00}, {0xbf, 0xf6, 0x00, 0xff}, {0xa1, 0xfb, 0x7f, 0xf8, 0, 0, 0, 0, 0, 0, 0x00},
		{0x9a, 0x00, 0x98, 0x96, 0x80}, {0x81, 0xc2, 0x40}} {
		add(258, c)
		add(259, c)
	}
	// ---- constructor alternatives: 121..127, 1280..1400, 101 (and the neighbours)
	fields := [][]byte{{0x80}, {0x9f, 0xff}, {0x82, 0x01, 0x41, 0x00}, {0x81, 0xd8, 0x79, 0x80}, {0x9f, 0xd8, 0x79, 0x9f, 0xff, 0xff}, {0x81, 0xc2, 0x40}, {0xa0}, {0x00}, {0x40}, {0xf6}}
	for _, t := range []uint64{120, 121, 122, 127, 128, 1279, 1280, 1281, 1400, 1401, 100, 101, 102, 103} {
		for _, f := range fields {
			add(t, f)
		}
	}
	for _, t := range []uint64{101, 102} {
		for _, n := range integers() {
			if full || r.Intn(4) == 0 {
				add(t, cat([]byte{0x82}, n, []byte{0x80}))
			}
		}
		for _, f := range fields {
			add(t, cat([]byte{0x82, 0x18, 0x80}, f))
			add(t, cat([]byte{0x83, 0x18, 0x80}, f, []byte{0x00}))
			add(t, cat([]byte{0x81}, f))
		}
	}
	// ---- wrong content types under every tag of interest, and huge / odd tag numbers
	for _, t := range []uint64{2, 3, 24, 30, 258, 259, 121, 1280, 101, 102, 55799, 1<<32 - 1, 1<<64 - 1} {
		for _, w := range wrongs() {
			if full || r.Intn(3) == 0 {
				add(t, w)
			}
		}
	}
	// ---- plain integers in every representation (for the splice positions and typed destinations)
	out = append(out, integers()...)
	return out
}

// in small containers: list element, map value, map key, double tag
func wrapped(v []byte) [][]byte {
	return [][]byte{
		v,
		cat([]byte{0x81}, v),
		cat([]byte{0x82, 0x00}, v),
		cat([]byte{0xa1, 0x00}, v),
		cat([]byte{0xa1}, v, []byte{0x00}),
		cat([]byte{0x9f}, v, []byte{0xff}),
		cat([]byte{0xd8, 0x18}, bstr(v)),
		cat([]byte{0xd9, 0x01, 0x02, 0x81}, v),
		cat([]byte{0xd8, 0x79, 0x81}, v),
	}
}

// typed destinations that contain (or are) tagged values
func tagEntries() []entry {
	var es []entry
	add := func(name string, fn func(b []byte) error) {
		es = append(es, entry{name: name, group: "tags", id: -1, fn: fn, weight: 3})
	}
	add("cbor.Decode(Rat)", func(b []byte) error { var v cbor.Rat; _, err := cbor.Decode(b, &v); return err })
	add("cbor.Decode(WrappedCbor)", func(b []byte) error { var v cbor.WrappedCbor; _, err := cbor.Decode(b, &v); return err })
	add("cbor.Decode(Set)", func(b []byte) error { var v cbor.Set; _, err := cbor.Decode(b, &v); return err })
	add("cbor.Decode(Map)", func(b []byte) error { var v cbor.Map; _, err := cbor.Decode(b, &v); return err })
	add("cbor.Decode(ConstructorDecoder)", func(b []byte) error {
		var v cbor.ConstructorDecoder
		_, err := cbor.Decode(b, &v)
		return err
	})
	add("cbor.Decode(RawTag)", func(b []byte) error { var v cbor.RawTag; _, err := cbor.Decode(b, &v); return err })
	add("cbor.Decode(big.Int)", func(b []byte) error { var v big.Int; _, err := cbor.Decode(b, &v); return err })
	add("cbor.Decode(SetType[uint64])", func(b []byte) error { var v cbor.SetType[uint64]; _, err := cbor.Decode(b, &v); return err })
	add("cbor.Decode([]Rat)", func(b []byte) error { var v []cbor.Rat; _, err := cbor.Decode(b, &v); return err })
	add("cbor.Decode(map[uint]Rat)", func(b []byte) error { var v map[uint]cbor.Rat; _, err := cbor.Decode(b, &v); return err })
	add("common.CertificateWrapper", func(b []byte) error { var v common.CertificateWrapper; _, err := cbor.Decode(b, &v); return err })
	add("common.PoolRegistrationCertificate", func(b []byte) error {
		var v common.PoolRegistrationCertificate
		_, err := cbor.Decode(b, &v)
		return err
	})
	add("shelley.ShelleyProtocolParameterUpdate", func(b []byte) error {
		var v shelley.ShelleyProtocolParameterUpdate
		_, err := cbor.Decode(b, &v)
		return err
	})
	add("mary.MaryProtocolParameterUpdate", func(b []byte) error { var v mary.MaryProtocolParameterUpdate; _, err := cbor.Decode(b, &v); return err })
	add("alonzo.AlonzoProtocolParameterUpdate", func(b []byte) error {
		var v alonzo.AlonzoProtocolParameterUpdate
		_, err := cbor.Decode(b, &v)
		return err
	})
	add("babbage.BabbageProtocolParameterUpdate", func(b []byte) error {
		var v babbage.BabbageProtocolParameterUpdate
		_, err := cbor.Decode(b, &v)
		return err
	})
	add("conway.ConwayProtocolParameterUpdate", func(b []byte) error {
		var v conway.ConwayProtocolParameterUpdate
		_, err := cbor.Decode(b, &v)
		return err
	})
	add("dijkstra.DijkstraProtocolParameterUpdate", func(b []byte) error {
		var v dijkstra.DijkstraProtocolParameterUpdate
		_, err := cbor.Decode(b, &v)
		return err
	})
	return es
}

func semanticTag(t uint64) bool {
	return t <= 5 || t == 24 || t == 30 || t == 258 || t == 259 || (t >= 100 && t <= 128) || (t >= 1279 && t <= 1401)
}

// tagSpans: positions in b holding a tagged item of interest, and positions holding an integer
func tagSpans(b []byte) (tags, ints []span) {
	for _, s := range spansOf(b) {
		switch s.major {
		case 6:
			if s.hdr >= 1 && s.off+s.hdr <= len(b) {
				t := argVal(b[s.off+1:], s.hdr-1, b[s.off]&31)
				if semanticTag(t) {
					tags = append(tags, s)
				}
			}
		case 0, 1:
			ints = append(ints, s)
		}
	}
	return
}

// pparam-shaped seeds: {key: rational} updates and a pool registration certificate with a margin
func tagSeeds() [][]byte {
	h28 := make([]byte, 28)
	h32 := make([]byte, 32)
	rat := []byte{0xd8, 0x1e, 0x82, 0x01, 0x0a}
	pool := cat([]byte{0x8a, 0x03}, bstr(h28), bstr(h32), []byte{0x1a, 0x00, 0x0f, 0x42, 0x40, 0x1a, 0x00, 0x05, 0x00, 0x00}, rat,
		cat([]byte{0x58, 0x1d, 0xe1}, h28), cat([]byte{0x81}, bstr(h28)), []byte{0x80, 0xf6})
	return [][]byte{
		cat([]byte{0xa1, 0x0c}, rat), cat([]byte{0xa3, 0x09}, rat, []byte{0x0a}, rat, []byte{0x0b}, rat),
		cat([]byte{0xa2, 0x00, 0x18, 0x2c, 0x0c}, rat), pool, cat([]byte{0x82, 0x01}, rat), cat([]byte{0xa1, 0x00}, rat),
		cat([]byte{0x81}, rat), cat([]byte{0xd9, 0x01, 0x02, 0x81}, rat), rat,
	}
}

// runTagSemantics: (a) standalone and wrapped values to the generic and typed
// destinations; (b) substitution at the tag / integer positions of real seeds
func (f *fuzzer) runTagSemantics(c *vh.Ctx, es []entry, cp *corpus, only string) {
	r := c.Rng.Fork()
	vals := tagValues(r, c.Thorough())
	// (a) generic CBOR destinations + typed destinations
	var dests []*entry
	for i := range es {
		if es[i].group == "cbor" || es[i].group == "tags" {
			if only == "" || bytes.Contains([]byte(es[i].name), []byte(only)) {
				dests = append(dests, &es[i])
			}
		}
	}
	for _, e := range dests {
		typed := e.group == "tags"
		for k, v := range vals {
			if !c.Thorough() && !typed && e.weight < 3 && (k+int(c.Seed))%4 != 0 {
				continue // quick tier: the minor generic destinations see a quarter of the values
			}
			ws := wrapped(v)
			// the bare value always; the wrappings in rotation (all of them for typed destinations in the thorough tier)
			for j, w := range ws {
				if j == 0 || (typed && c.Thorough()) || (k+j)%len(ws) == 1 {
					if !f.one(e, w, "tag-semantics") {
						return
					}
				}
			}
		}
		if typed {
			for _, s := range tagSeeds() {
				if !f.one(e, s, "tag-semantics-seed") {
					return
				}
			}
		}
	}
	// (b) splice into real encodings.  Seeds: everything harvested / cut out of
	// the fixtures that contains a tag of interest, plus the pparam-shaped seeds.
	perSeed := c.Pick(24, 120)
	for i := range es {
		e := &es[i]
		if only != "" && !bytes.Contains([]byte(e.name), []byte(only)) {
			continue
		}
		seeds := f.seedsFor(cp, e)
		if e.group == "cbor" || e.group == "tags" {
			seeds = append(append([][]byte(nil), seeds...), tagSeeds()...)
			seeds = append(seeds, cp.groups["withtags"]...)
		}
		budget := c.Pick(60, 600) * e.weight
		for _, s := range seeds {
			if budget <= 0 || f.stop {
				break
			}
			if len(s) > 20000 {
				continue
			}
			tags, ints := tagSpans(s)
			if len(tags) == 0 && (len(ints) == 0 || r.Intn(4) != 0) {
				continue
			}
			n := perSeed
			if len(tags) == 0 {
				n = 4
			}
			for k := 0; k < n && budget > 0; k++ {
				var at span
				if len(tags) > 0 && (len(ints) == 0 || r.Intn(5) != 0) {
					at = tags[r.Intn(len(tags))]
				} else {
					at = ints[r.Intn(len(ints))]
				}
				v := vals[r.Intn(len(vals))]
				var b []byte
				if at.major == 6 && r.Intn(3) != 0 && at.off+at.hdr < at.end {
					// keep the tag, replace pieces of its content: every integer inside by a special one
					_, inner := tagSpans(s[at.off:at.end])
					if len(inner) > 0 {
						x := inner[r.Intn(len(inner))]
						iv := fewInts()[r.Intn(len(fewInts()))]
						b = splice(s, at.off+x.off, at.off+x.end, iv)
					}
				}
				if b == nil {
					b = splice(s, at.off, at.end, v)
				}
				budget--
				if !f.one(e, b, "tag-semantics-splice") {
					return
				}
			}
		}
	}
}
