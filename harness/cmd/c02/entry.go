// C02 - the public decoding entry points named by the property.  Each entry
// is a closure over one real decoder; it returns the decoder's error (nil =
// a value was produced).  The fuzz part (fuzz.go) only observes the outcome
// class {value, error, panic}, the wall time and the allocated bytes.
package main

import (
	"fmt"

	"github.com/blinklabs-io/gouroboros/cbor"
	"github.com/blinklabs-io/gouroboros/ledger"
	"github.com/blinklabs-io/gouroboros/ledger/common"
	"github.com/blinklabs-io/gouroboros/protocol"
	"github.com/blinklabs-io/gouroboros/protocol/blockfetch"
	"github.com/blinklabs-io/gouroboros/protocol/chainsync"
	"github.com/blinklabs-io/gouroboros/protocol/handshake"
	"github.com/blinklabs-io/gouroboros/protocol/keepalive"
	"github.com/blinklabs-io/gouroboros/protocol/leiosfetch"
	"github.com/blinklabs-io/gouroboros/protocol/leiosnotify"
	"github.com/blinklabs-io/gouroboros/protocol/leiosvotes"
	"github.com/blinklabs-io/gouroboros/protocol/localmessagenotification"
	"github.com/blinklabs-io/gouroboros/protocol/localmessagesubmission"
	"github.com/blinklabs-io/gouroboros/protocol/localstatequery"
	"github.com/blinklabs-io/gouroboros/protocol/localtxmonitor"
	"github.com/blinklabs-io/gouroboros/protocol/localtxsubmission"
	"github.com/blinklabs-io/gouroboros/protocol/messagesubmission"
	"github.com/blinklabs-io/gouroboros/protocol/peersharing"
	"github.com/blinklabs-io/gouroboros/protocol/txsubmission"
)

// entry is one public decoding entry point.
type entry struct {
	name  string // stable name, used in monitor keys
	group string // corpus group: block:<era>, header:<era>, tx:<era>, body:<era>, output, addr, addrstr, msg:<proto>, cbor
	id    int    // block/tx/message type id (for seed selection), -1 if none
	fn    func(b []byte) error
	// weight scales the number of cases (1 = default)
	weight int
}

var eraNames = []string{"byron-ebb", "byron", "shelley", "allegra", "mary", "alonzo", "babbage", "conway", "dijkstra"}
var txEraNames = []string{"byron", "shelley", "allegra", "mary", "alonzo", "babbage", "conway", "dijkstra"}

type msgProto struct {
	name  string
	maxID int
	fn    func(uint, []byte) (protocol.Message, error)
}

var msgProtos = []msgProto{
	{"handshake", 3, handshake.NewMsgFromCbor},
	{"chainsync-ntn", 7, chainsync.NewMsgFromCborNtN},
	{"chainsync-ntc", 7, chainsync.NewMsgFromCborNtC},
	{"blockfetch", 5, blockfetch.NewMsgFromCbor},
	{"txsubmission", 6, txsubmission.NewMsgFromCbor},
	{"keepalive", 2, keepalive.NewMsgFromCbor},
	{"peersharing", 2, peersharing.NewMsgFromCbor},
	{"localtxsubmission", 3, localtxsubmission.NewMsgFromCbor},
	{"localtxmonitor", 12, localtxmonitor.NewMsgFromCbor},
	{"localstatequery", 11, localstatequery.NewMsgFromCbor},
	{"leiosfetch", 14, leiosfetch.NewMsgFromCbor},
	{"leiosnotify", 7, leiosnotify.NewMsgFromCbor},
	{"leiosvotes", 3, leiosvotes.NewMsgFromCbor},
	{"localmessagenotification", 4, localmessagenotification.NewMsgFromCbor},
	{"localmessagesubmission", 4, localmessagesubmission.NewMsgFromCbor},
	{"messagesubmission", 6, messagesubmission.NewMsgFromCbor},
}

// protoDir maps the entry's protocol name to the directory its test vectors are harvested from
func protoDir(name string) string {
	switch name {
	case "chainsync-ntn", "chainsync-ntc":
		return "chainsync"
	}
	return name
}

var diagOpts = []cbor.DiagnosticOptions{
	{},
	{ShowOffsets: true, ShowHex: true, CardanoAware: true},
	{MaxDepth: 3, MaxArrayItems: 2, MaxByteLength: 4},
}

func entries() []entry {
	var es []entry
	add := func(name, group string, id int, weight int, fn func(b []byte) error) {
		es = append(es, entry{name: name, group: group, id: id, fn: fn, weight: weight})
	}
	skip := common.VerifyConfig{SkipBodyHashValidation: true}
	for id, era := range eraNames {
		id := uint(id)
		add("ledger.NewBlockFromCbor#"+era, "block:"+era, int(id), 2, func(b []byte) error {
			_, err := ledger.NewBlockFromCbor(id, b)
			return err
		})
		add("ledger.NewBlockFromCbor(skip-body-hash)#"+era, "block:"+era, int(id), 2, func(b []byte) error {
			_, err := ledger.NewBlockFromCbor(id, b, skip)
			return err
		})
		add("ledger.NewBlockHeaderFromCbor#"+era, "header:"+era, int(id), 2, func(b []byte) error {
			_, err := ledger.NewBlockHeaderFromCbor(id, b)
			return err
		})
		add("ledger.NewBlockFromCborWithOffsets#"+era, "block:"+era, int(id), 1, func(b []byte) error {
			_, err := ledger.NewBlockFromCborWithOffsets(id, b, skip)
			return err
		})
	}
	add("ledger.ExtractTransactionOffsets", "block:*", -1, 3, func(b []byte) error {
		_, err := ledger.ExtractTransactionOffsets(b)
		return err
	})
	add("common.ExtractAndSetTransactionCbor", "block:*", -1, 3, func(b []byte) error {
		nop := func(int, []byte) {}
		n := 0
		if len(b) > 1 {
			n = int(b[1]) % 4
		}
		return common.ExtractAndSetTransactionCbor(b, nop, nop, func([]byte) {}, n, n)
	})
	add("ledger.DetermineBlockType", "header:*", -1, 2, func(b []byte) error {
		_, err := ledger.DetermineBlockType(b)
		return err
	})
	for id, era := range txEraNames {
		id := uint(id)
		add("ledger.NewTransactionFromCbor#"+era, "tx:"+era, int(id), 2, func(b []byte) error {
			_, err := ledger.NewTransactionFromCbor(id, b)
			return err
		})
		add("ledger.NewTransactionBodyFromCbor#"+era, "body:"+era, int(id), 2, func(b []byte) error {
			_, err := ledger.NewTransactionBodyFromCbor(id, b)
			return err
		})
	}
	add("ledger.DetermineTransactionType", "tx:*", -1, 2, func(b []byte) error {
		_, err := ledger.DetermineTransactionType(b)
		return err
	})
	add("ledger.NewTransactionOutputFromCbor", "output", -1, 4, func(b []byte) error {
		_, err := ledger.NewTransactionOutputFromCbor(b)
		return err
	})
	add("common.NewLeiosEndorserBlockFromCbor", "leios", -1, 2, func(b []byte) error {
		_, err := common.NewLeiosEndorserBlockFromCbor(b)
		return err
	})
	add("common.NewAddressFromBytes", "addr", -1, 4, func(b []byte) error {
		_, err := common.NewAddressFromBytes(b)
		return err
	})
	add("common.Address.UnmarshalCBOR(cbor.Decode)", "addrcbor", -1, 2, func(b []byte) error {
		var a common.Address
		_, err := cbor.Decode(b, &a)
		return err
	})
	add("common.NewAddress", "addrstr", -1, 4, func(b []byte) error {
		_, err := common.NewAddress(string(b))
		return err
	})
	for _, f := range []struct {
		n  string
		fn func([]byte) (error, error)
	}{
		{"ledger.NewGenericErrorFromCbor", ledger.NewGenericErrorFromCbor},
		{"ledger.NewEraMismatchErrorFromCbor", ledger.NewEraMismatchErrorFromCbor},
		{"ledger.NewTxSubmitErrorFromCbor", ledger.NewTxSubmitErrorFromCbor},
		{"ledger.NewShelleyTxValidationErrorFromCbor", ledger.NewShelleyTxValidationErrorFromCbor},
	} {
		f := f
		add(f.n, "lerr", -1, 1, func(b []byte) error {
			_, err := f.fn(b)
			return err
		})
	}
	for _, f := range []struct {
		n  string
		fn func([]byte) (protocol.VersionData, error)
	}{
		{"protocol.NewVersionDataNtC9to14FromCbor", protocol.NewVersionDataNtC9to14FromCbor},
		{"protocol.NewVersionDataNtC15andUpFromCbor", protocol.NewVersionDataNtC15andUpFromCbor},
		{"protocol.NewVersionDataNtN7to10FromCbor", protocol.NewVersionDataNtN7to10FromCbor},
		{"protocol.NewVersionDataNtN11to12FromCbor", protocol.NewVersionDataNtN11to12FromCbor},
		{"protocol.NewVersionDataNtN13andUpFromCbor", protocol.NewVersionDataNtN13andUpFromCbor},
	} {
		f := f
		add(f.n, "cbor", -1, 1, func(b []byte) error {
			_, err := f.fn(b)
			return err
		})
	}
	for _, p := range msgProtos {
		p := p
		for id := 0; id <= p.maxID+1; id++ {
			id := id
			add(fmt.Sprintf("protocol/%s.NewMsgFromCbor#%d", p.name, id), "msg:"+protoDir(p.name), id, 1, func(b []byte) error {
				m, err := p.fn(uint(id), b)
				if err == nil && m == nil {
					return fmt.Errorf("nil message")
				}
				return err
			})
		}
	}
	// generic CBOR values and diagnostics
	add("cbor.Decode(Value)", "cbor", -1, 6, func(b []byte) error {
		var v cbor.Value
		_, err := cbor.Decode(b, &v)
		if err == nil {
			_, _ = v.MarshalJSON()
		}
		return err
	})
	add("cbor.Value.UnmarshalCBOR", "cbor", -1, 3, func(b []byte) error {
		var v cbor.Value
		return v.UnmarshalCBOR(b)
	})
	add("cbor.LazyValue.Decode", "cbor", -1, 2, func(b []byte) error {
		var v cbor.LazyValue
		if _, err := cbor.Decode(b, &v); err != nil {
			return err
		}
		_, err := v.Decode()
		if err == nil {
			_, _ = v.MarshalJSON()
		}
		return err
	})
	add("cbor.Decode(any)", "cbor", -1, 3, func(b []byte) error {
		var v any
		_, err := cbor.Decode(b, &v)
		return err
	})
	add("cbor.DecodeStrict(any)", "cbor", -1, 1, func(b []byte) error {
		var v any
		_, err := cbor.DecodeStrict(b, &v)
		return err
	})
	add("cbor.Decode([]RawMessage)", "cbor", -1, 2, func(b []byte) error {
		var v []cbor.RawMessage
		_, err := cbor.Decode(b, &v)
		return err
	})
	add("cbor.DecodeIdFromList", "cbor", -1, 2, func(b []byte) error {
		_, err := cbor.DecodeIdFromList(b)
		return err
	})
	add("cbor.ListLength", "cbor", -1, 2, func(b []byte) error {
		_, err := cbor.ListLength(b)
		return err
	})
	add("cbor.ParseDiagnostic", "cbor", -1, 6, func(b []byte) error {
		_, err := cbor.ParseDiagnostic(b)
		return err
	})
	add("cbor.Diagnose", "cbor", -1, 2, func(b []byte) error {
		_, err := cbor.Diagnose(b, diagOpts[0])
		return err
	})
	// rendering of a parsed tree (not a decoder, but named by the property as "diagnostics")
	add("cbor.ParseDiagnostic+Format*", "cbor", -1, 4, func(b []byte) error {
		n, err := cbor.ParseDiagnostic(b)
		if err != nil {
			return err
		}
		for _, o := range diagOpts {
			_ = n.FormatDiagnostic(o)
			_ = n.FormatDiagnosticPretty(o)
			_ = n.FormatHexDump(o)
		}
		if n.Length > 0 {
			_ = n.GetNodeAtOffset(n.Length / 2)
			_ = n.GetPathToOffset(n.Length - 1)
		}
		return nil
	})
	add("cbor.DiagnoseTransaction", "tx:*", -1, 2, func(b []byte) error {
		_, err := cbor.DiagnoseTransaction(b, diagOpts[1])
		return err
	})
	add("cbor.DiagnoseBlock", "block:*", -1, 2, func(b []byte) error {
		_, err := cbor.DiagnoseBlock(b, diagOpts[1])
		return err
	})
	for _, f := range []struct {
		n, g string
		fn   func([]byte, cbor.DiagnosticOptions) (string, error)
	}{
		{"cbor.FormatTransactionDiagnostic", "tx:*", cbor.FormatTransactionDiagnostic},
		{"cbor.FormatBlockDiagnostic", "block:*", cbor.FormatBlockDiagnostic},
		{"cbor.FormatPlutusData", "cbor", cbor.FormatPlutusData},
		{"cbor.FormatNativeScript", "cbor", cbor.FormatNativeScript},
	} {
		f := f
		add(f.n, f.g, -1, 2, func(b []byte) error {
			_, err := f.fn(b, diagOpts[0])
			if err == nil {
				_, err = f.fn(b, diagOpts[2])
			}
			return err
		})
	}
	add("cbor.StreamDecoder.DecodeAllDiagnostic", "cbor", -1, 2, func(b []byte) error {
		d, err := cbor.NewStreamDecoder(b)
		if err != nil {
			return err
		}
		_, err = d.DecodeAllDiagnostic()
		return err
	})
	es = append(es, tagEntries()...)
	return es
}
