// C02 - decoders are total on arbitrary bytes.
//
//	run : (a) correspondence: the hand-written byte-level scanners of the repository against the
//	          Coq model with explicit partial operations (scan.go -> cases_*.v)
//	      (b) DIFFERENTIAL FUZZING (not a proof) of every public decoding entry point (fuzz.go)
package main

import (
	"encoding/json"
	"os"

	"verifharness/vh"
)

func run(c *vh.Ctx) error {
	c.Res.Rule = "(a) scanner correspondence: each hand-written scanner on corpus items, truncations, mutations and inflated headers; the unexported offset walkers through ExtractTransactionOffsets / DecodeWithOffsets on a fixed corpus of tiny blocks at the edges of every arity / kind guard of the three layouts plus real-fixture cuts and synthetic blocks mutated at tree level; protocol.readLoop through a real Protocol over net.Pipe fed adversarial segment streams; distinct by (scanner, input); (b) fuzzing: per entry point its real seeds, fixed adversarial inputs (nesting 10..100000, claimed lengths up to 2^64-1, chunk counts up to 300000) and structure-aware mutations (truncate, byte mutation, length inflation, nesting splice, tag substitution, type confusion, drop/dup item, indefinite rewrite); distinct by (entry point, input); non-trivial = not purely random / empty"
	c.Res.Modelled = []string{
		"fxamacker/cbor (reflection-driven decoding, well-formedness check, Skip/Decode/NumBytesRead of the stream decoder) is NOT modelled line by line: in the scanner model it is the Lib CBOR parser plus an acceptance predicate, and its own totality / memory use is only fuzzed",
		"fxamacker's typed destinations in the offset walkers and the protocol read loop (Decode into uint64 / []RawMessage / []uint64: tags skipped, null leaves the zero value, simple values decode as numbers) are modelled from calibration runs; inputs with tags 0..5, tag 55799, or that hit the library's resource rules (10^7 elements, string length overflow) are left out of the correspondence and only fuzzed",
		"heap growth and wall time are runtime facts: measured by fuzzing (runtime.MemStats.TotalAlloc delta per case, watchdog on the live heap), not proved",
	}
	var rp *freplay
	if c.Replay != "" {
		b, err := os.ReadFile(c.Replay)
		if err != nil {
			return err
		}
		var w struct {
			Replay json.RawMessage `json:"replay"`
		}
		if err := json.Unmarshal(b, &w); err != nil {
			return err
		}
		var r freplay
		if json.Unmarshal(w.Replay, &r) == nil && r.Entry != "" {
			rp = &r
		}
	}
	if rp == nil && os.Getenv("C02_ONLY") == "" {
		cp, err := loadCorpus(c.Rng.Fork())
		if err != nil {
			return err
		}
		runScan(c, cp)
	}
	if os.Getenv("C02_NOFUZZ") == "" {
		runFuzz(c, os.Getenv("C02_ONLY"), rp)
	}
	return nil
}

func main() { vh.Main(vh.Runner{Property: "C02", Run: run}) }
