// C02 - seed corpus (real fixtures and the repository's own test vectors) and
// the structure-aware mutators of the differential fuzzing part.
package main

import (
	"bytes"
	"encoding/binary"
	"encoding/hex"
	"fmt"
	"os"
	"path/filepath"
	"regexp"
	"sort"
	"strings"

	"github.com/blinklabs-io/gouroboros/ledger"
	"github.com/blinklabs-io/gouroboros/ledger/common"

	"verifharness/vh"
)

type corpus struct {
	groups map[string][][]byte
	small  [][]byte // every seed below 512 bytes (for splicing / type confusion)
	notes  []string
}

func (c *corpus) add(group string, b []byte) {
	if len(b) == 0 {
		return
	}
	c.groups[group] = append(c.groups[group], append([]byte(nil), b...))
	if len(b) < 512 {
		c.small = append(c.small, b)
	}
}

var blockFixtures = []struct {
	era  string
	id   uint
	file string
}{
	{"byron", 1, "byron_block.hex"}, {"shelley", 2, "shelley_block.hex"}, {"allegra", 3, "allegra_block.hex"},
	{"mary", 4, "mary_block.hex"}, {"alonzo", 5, "alonzo_block.hex"}, {"babbage", 6, "babbage_block.hex"},
	{"conway", 7, "conway_block.hex"},
}

var hexRe = regexp.MustCompile(`"([0-9a-fA-F]{4,})"`)

// harvest collects the hex test vectors of the *_test.go files in dir
func harvest(dir string, max int) [][]byte {
	var out [][]byte
	seen := map[string]bool{}
	files, _ := filepath.Glob(filepath.Join(dir, "*_test.go"))
	sort.Strings(files)
	for _, f := range files {
		src, err := os.ReadFile(f)
		if err != nil {
			continue
		}
		for _, m := range hexRe.FindAllSubmatch(src, -1) {
			s := string(m[1])
			if len(s)%2 != 0 || len(s) > 2*65536 || seen[s] {
				continue
			}
			b, err := hex.DecodeString(s)
			if err != nil {
				continue
			}
			seen[s] = true
			out = append(out, b)
			if len(out) >= max {
				return out
			}
		}
	}
	return out
}

func repoDir() string {
	if r := os.Getenv("VERIF_REPO"); r != "" {
		return r
	}
	return "/repo"
}

func loadCorpus(rng *vh.Rng) (*corpus, error) {
	c := &corpus{groups: map[string][][]byte{}}
	repo := repoDir()
	skip := common.VerifyConfig{SkipBodyHashValidation: true}
	for _, f := range blockFixtures {
		raw, err := os.ReadFile(filepath.Join(repo, "internal/testdata", f.file))
		if err != nil {
			return nil, err
		}
		data, err := hex.DecodeString(strings.TrimSpace(string(raw)))
		if err != nil {
			return nil, fmt.Errorf("%s: %w", f.file, err)
		}
		c.add("block:"+f.era, data)
		c.add("block:*", data)
		blk, err := ledger.NewBlockFromCbor(f.id, data, skip)
		if err != nil {
			c.notes = append(c.notes, fmt.Sprintf("fixture %s does not decode: %v", f.file, err))
			continue
		}
		h := blk.Header().Cbor()
		c.add("header:"+f.era, h)
		c.add("header:*", h)
		offs, _ := ledger.ExtractTransactionOffsets(data)
		for i, tx := range blk.Transactions() {
			if i >= 5 {
				break
			}
			c.add("tx:"+f.era, tx.Cbor())
			c.add("tx:*", tx.Cbor())
			if offs != nil && i < len(offs.Transactions) {
				if b, err := common.ExtractTransactionBodyCbor(data, offs, i); err == nil {
					c.add("body:"+f.era, b)
				}
			}
			for j, o := range tx.Outputs() {
				if j >= 3 {
					break
				}
				c.add("output", o.Cbor())
				a := o.Address()
				if ab, err := a.Bytes(); err == nil {
					c.add("addr", ab)
					c.add("addrcbor", vh.B(ab).Enc())
				}
				if s := a.String(); s != "" {
					c.add("addrstr", []byte(s))
				}
			}
		}
	}
	for i := 0; i < 120; i++ {
		b := synthBlock(rng)
		c.add("block:*", b)
		c.add("synth", b)
	}
	// eras without a fixture borrow the nearest one (type confusion is part of the quantifier)
	alias := func(dst, src string) {
		for _, k := range []string{"block:", "header:", "tx:", "body:"} {
			if len(c.groups[k+dst]) == 0 {
				c.groups[k+dst] = c.groups[k+src]
			}
		}
	}
	alias("dijkstra", "conway")
	alias("byron-ebb", "byron")
	if len(c.groups["body:byron"]) == 0 {
		c.groups["body:byron"] = c.groups["tx:byron"]
	}
	// the repository's own test vectors
	for _, p := range msgProtos {
		d := protoDir(p.name)
		if _, ok := c.groups["msg:"+d]; ok {
			continue
		}
		for _, b := range harvest(filepath.Join(repo, "protocol", d), 200) {
			c.add("msg:"+d, b)
		}
		if len(c.groups["msg:"+d]) == 0 {
			// no vectors in the tree: [id] and [id, x] skeletons
			for id := 0; id <= p.maxID; id++ {
				c.add("msg:"+d, vh.A(vh.U(uint64(id))).Enc())
				c.add("msg:"+d, vh.A(vh.U(uint64(id)), vh.RandItem(rng, 2)).Enc())
			}
		}
	}
	for _, b := range harvest(filepath.Join(repo, "ledger"), 150) {
		c.add("lerr", b)
		c.add("cbor", b)
	}
	for _, b := range harvest(filepath.Join(repo, "ledger/common"), 300) {
		c.add("cbor", b)
		if len(b) >= 29 && len(b) <= 128 {
			c.add("addr", b)
		}
	}
	// per-era and query test vectors (protocol parameter updates, certificates, transactions with rationals ...)
	for _, d := range []string{"ledger/byron", "ledger/shelley", "ledger/allegra", "ledger/mary", "ledger/alonzo", "ledger/babbage", "ledger/conway",
		"ledger/dijkstra", "ledger/common/script", "protocol/localstatequery", "protocol/localtxsubmission"} {
		for _, b := range harvest(filepath.Join(repo, d), 120) {
			if len(b) < 8192 {
				c.add("cbor", b)
			}
		}
	}
	// transactions used by the ledger package tests (several carry rationals / pool registrations)
	for _, b := range harvest(filepath.Join(repo, "ledger"), 150) {
		if len(b) > 60 && len(b) < 8192 && b[0] >= 0x82 && b[0] <= 0x84 {
			c.add("tx:*", b)
			for _, era := range txEraNames {
				c.groups["tx:"+era] = append(c.groups["tx:"+era], b)
			}
		}
	}
	for _, b := range tagSeeds() {
		c.add("tags", b)
	}
	for _, b := range harvest(filepath.Join(repo, "cbor"), 300) {
		c.add("cbor", b)
	}
	for _, b := range harvest(filepath.Join(repo, "protocol"), 50) {
		c.add("cbor", b)
	}
	// leios endorser block: [ {hash => size} ] and the bare map
	h32 := make([]byte, 32)
	for i := range h32 {
		h32[i] = byte(i)
	}
	refs := vh.M(vh.B(h32), vh.U(300))
	c.add("leios", vh.A(refs).Enc())
	c.add("leios", refs.Enc())
	// byron / pointer / malformed-trailer addresses written by hand
	ptr := append([]byte{0x41}, make([]byte, 28)...)
	ptr = append(ptr, 0x81, 0x00, 0x7f, 0xff, 0x01)
	c.add("addr", ptr)
	c.add("addr", append(append([]byte{0x01}, make([]byte, 56)...), 0))
	c.add("addrstr", []byte("addr1vpu5vlrf4xkxv2qpwngf6cjhtw542ayty80v8dyr49rf5eg0yu80w"))
	c.add("addrstr", []byte("Ae2tdPwUPEZFRbyhz3cpfC2CumGzNkFBN2L42rcUc2yjQpEkxDbkPodpMAi"))
	c.add("addrstr", []byte("stake1uyehkck0lajq8gr28t9uxnuvgcqrc6070x3k9r8048z8y5gh6ffgw"))
	// generic items
	for i := 0; i < 150; i++ {
		it := vh.RandItem(rng, 3)
		c.add("cbor", it.Enc())
	}
	for _, g := range []string{"header:*", "tx:*", "output", "addrcbor", "leios"} {
		for _, b := range c.groups[g] {
			if len(b) < 4096 {
				c.groups["cbor"] = append(c.groups["cbor"], b)
			}
		}
	}
	// every seed that contains a tag the repository gives a meaning to
	seen := map[string]bool{}
	for _, g := range vh.SortedKeys(c.groups) {
		if g == "withtags" || strings.HasPrefix(g, "block:") {
			continue
		}
		for _, b := range c.groups[g] {
			if len(b) > 8192 || seen[string(b)] {
				continue
			}
			seen[string(b)] = true
			if t, _ := tagSpans(b); len(t) > 0 {
				c.groups["withtags"] = append(c.groups["withtags"], b)
			}
		}
	}
	for _, b := range c.groups["withtags"] {
		if bytes.Contains(b, []byte{0xd8, 0x1e, 0x82}) {
			c.groups["tags"] = append(c.groups["tags"], b)
		}
	}
	for _, k := range vh.SortedKeys(c.groups) {
		c.notes = append(c.notes, fmt.Sprintf("corpus %s: %d seeds", k, len(c.groups[k])))
	}
	return c, nil
}

// synthBlock builds a small Shelley-shaped block [header, [bodies], [witness sets], metadata, ...]
// out of random items: bodies are maps with an outputs array under key 1, witness sets are maps
// with datums / redeemers / scripts, the metadata map has (mostly) integer keys; every container
// may use any header width or the indefinite form.  These reach the extract*Offsets walkers.
func synthBlock(r *vh.Rng) []byte {
	arr := func(n int, f func() *vh.Item) *vh.Item {
		xs := make([]*vh.Item, n)
		for i := range xs {
			xs[i] = f()
		}
		return vh.A(xs...)
	}
	key := func(k uint64) *vh.Item {
		if r.Intn(6) == 0 {
			return vh.PickOne(r, []*vh.Item{vh.T("k"), vh.NI(0), vh.B([]byte{1}), vh.A(), vh.Null()})
		}
		return vh.U(k)
	}
	leaf := func() *vh.Item { return vh.RandItem(r, 1) }
	n := r.Intn(4)
	body := func() *vh.Item {
		outs := arr(r.Intn(4), func() *vh.Item {
			if r.Bool() {
				return vh.A(vh.B(r.Bytes(29)), vh.U(uint64(r.Intn(1000))))
			}
			return vh.M(vh.U(0), vh.B(r.Bytes(29)), vh.U(1), vh.U(5))
		})
		kv := []*vh.Item{key(0), arr(r.Intn(3), leaf), key(1), outs, key(2), vh.U(uint64(r.Intn(100000)))}
		if r.Intn(3) == 0 {
			kv = append([]*vh.Item{key(3), leaf()}, kv...)
		}
		return vh.M(kv...)
	}
	wit := func() *vh.Item {
		red := arr(r.Intn(3), func() *vh.Item { return vh.A(vh.U(uint64(r.Intn(4))), vh.U(uint64(r.Intn(3))), leaf(), vh.A(vh.U(1), vh.U(2))) })
		if r.Bool() {
			red = vh.M(vh.A(vh.U(0), vh.U(uint64(r.Intn(3)))), vh.A(leaf(), vh.A(vh.U(1), vh.U(2))))
		}
		return vh.M(key(0), arr(r.Intn(2), leaf), key(4), arr(r.Intn(3), leaf), key(5), red, key(1), arr(r.Intn(2), leaf), key(3), arr(r.Intn(2), func() *vh.Item { return vh.B(r.Bytes(5)) }))
	}
	var mkv []*vh.Item
	for i := 0; i < n+1; i++ {
		if r.Intn(3) != 0 {
			mkv = append(mkv, key(uint64(i)), leaf())
		}
	}
	meta := vh.M(mkv...)
	if r.Intn(3) == 0 {
		meta.F = vh.Findef
	}
	parts := []*vh.Item{arr(2, leaf), arr(n, body), arr(n, wit), meta}
	if r.Bool() {
		parts = append(parts, arr(r.Intn(2), func() *vh.Item { return vh.U(uint64(r.Intn(3))) }))
	}
	blk := vh.A(parts...)
	blk = vh.Reform(r, blk, vh.ReformOpts{Containers: true, Ints: true, Indef: true, Prob: 40})
	return blk.Enc()
}

// ---------------------------------------------------------------------------
// item spans of a (mostly) well-formed encoding

type span struct {
	off, hdr, end int // item occupies b[off:end], header is b[off:off+hdr]
	major         byte
}

func argLen(ai byte) int {
	switch {
	case ai < 24:
		return 0
	case ai == 24:
		return 1
	case ai == 25:
		return 2
	case ai == 26:
		return 4
	case ai == 27:
		return 8
	}
	return -1
}

func argVal(b []byte, n int, ai byte) uint64 {
	switch n {
	case 0:
		return uint64(ai)
	case 1:
		return uint64(b[0])
	case 2:
		return uint64(binary.BigEndian.Uint16(b))
	case 4:
		return uint64(binary.BigEndian.Uint32(b))
	}
	return binary.BigEndian.Uint64(b)
}

// walk appends the spans of the item at b[p:] (pre-order) and returns its end, or -1
func walk(b []byte, p, depth int, out *[]span, limit int) int {
	if p >= len(b) || depth > 80 || len(*out) >= limit {
		return -1
	}
	mt, ai := b[p]>>5, b[p]&31
	idx := len(*out)
	*out = append(*out, span{off: p, major: mt})
	fin := func(hdr, end int) int {
		(*out)[idx].hdr, (*out)[idx].end = hdr, end
		return end
	}
	if ai == 31 {
		if mt == 0 || mt == 1 || mt == 6 || mt == 7 {
			return -1
		}
		q := p + 1
		for {
			if q >= len(b) {
				return -1
			}
			if b[q] == 0xff {
				return fin(1, q+1)
			}
			q = walk(b, q, depth+1, out, limit)
			if q < 0 {
				return -1
			}
		}
	}
	n := argLen(ai)
	if n < 0 || p+1+n > len(b) {
		return -1
	}
	v := argVal(b[p+1:], n, ai)
	q := p + 1 + n
	switch mt {
	case 0, 1, 7:
		return fin(1+n, q)
	case 2, 3:
		if v > uint64(len(b)-q) {
			return -1
		}
		return fin(1+n, q+int(v))
	case 4, 5:
		cnt := v
		if mt == 5 {
			cnt = 2 * v
		}
		if cnt > uint64(len(b)) {
			return -1
		}
		for i := uint64(0); i < cnt; i++ {
			q = walk(b, q, depth+1, out, limit)
			if q < 0 {
				return -1
			}
		}
		return fin(1+n, q)
	default:
		q = walk(b, q, depth+1, out, limit)
		if q < 0 {
			return -1
		}
		return fin(1+n, q)
	}
}

func spansOf(b []byte) []span {
	var out []span
	walk(b, 0, 0, &out, 3000)
	// keep the completed ones
	k := 0
	for _, s := range out {
		if s.end > 0 {
			out[k] = s
			k++
		}
	}
	return out[:k]
}

// ---------------------------------------------------------------------------
// mutators

func head(mt byte, n uint64, width int) []byte {
	switch width {
	case 0:
		return []byte{mt<<5 | byte(n%24)}
	case 1:
		return []byte{mt<<5 | 24, byte(n)}
	case 2:
		return []byte{mt<<5 | 25, byte(n >> 8), byte(n)}
	case 4:
		b := []byte{mt<<5 | 26, 0, 0, 0, 0}
		binary.BigEndian.PutUint32(b[1:], uint32(n))
		return b
	}
	b := []byte{mt<<5 | 27, 0, 0, 0, 0, 0, 0, 0, 0}
	binary.BigEndian.PutUint64(b[1:], n)
	return b
}

// the claimed lengths used for header inflation
var inflated = []struct {
	n uint64
	w int
}{
	{0xffffffff, 4}, {0x7fffffff, 4}, {0x80000000, 4}, {10_000_000, 4}, {10_000_001, 4}, {131072, 4}, {131073, 4},
	{0xffff, 2}, {0x7fffffffffffffff, 8}, {0xffffffffffffffff, 8}, {0x8000000000000000, 8}, {1 << 32, 8},
	{0xff, 1}, {1 << 20, 4}, {5_000_000, 4},
}

func splice(b []byte, from, to int, with []byte) []byte {
	out := make([]byte, 0, len(b)-(to-from)+len(with))
	out = append(out, b[:from]...)
	out = append(out, with...)
	return append(out, b[to:]...)
}

var substTags = []uint64{0, 1, 2, 3, 4, 5, 24, 30, 32, 55799, 101, 102, 121, 122, 127, 128, 258, 259, 1280, 1281, 1400, 1401, 0xffffffff, 0xffffffffffffffff}

func nest(kind, depth int, core []byte) []byte {
	var open, close []byte
	switch kind {
	case 0:
		open = []byte{0x81}
	case 1:
		open, close = []byte{0x9f}, []byte{0xff}
	case 2:
		open = []byte{0xa1, 0x00}
	case 3:
		open = []byte{0xc1}
	case 4:
		open = []byte{0xd8, 0x18}
	case 5:
		open = []byte{0xbf, 0x00}
		close = []byte{0xff}
	case 6:
		open = []byte{0xd9, 0x01, 0x02, 0x81} // set tag + array
	default:
		open = []byte{0xd8, 0x79, 0x81} // constructor 0 + array
	}
	out := make([]byte, 0, depth*(len(open)+len(close))+len(core))
	for i := 0; i < depth; i++ {
		out = append(out, open...)
	}
	out = append(out, core...)
	for i := 0; i < depth; i++ {
		out = append(out, close...)
	}
	return out
}

func chunks(kind, k int) []byte {
	var out []byte
	rep := func(open byte, unit []byte) {
		out = make([]byte, 0, 2+k*len(unit))
		out = append(out, open)
		for i := 0; i < k; i++ {
			out = append(out, unit...)
		}
		out = append(out, 0xff)
	}
	switch kind {
	case 0:
		rep(0x5f, []byte{0x40})
	case 1:
		rep(0x5f, []byte{0x41, 0x00})
	case 2:
		rep(0x7f, []byte{0x60})
	case 3:
		rep(0x7f, []byte{0x61, 0x61})
	case 4:
		rep(0x9f, []byte{0x00})
	case 5:
		rep(0xbf, []byte{0x00, 0x00})
	case 6:
		rep(0x9f, []byte{0x80})
	case 7:
		rep(0x9f, []byte{0x5f, 0xff})
	default:
		// definite array with a true large count
		out = append(head(4, uint64(k), 4), make([]byte, k)...)
	}
	return out
}

type mutator struct {
	r *vh.Rng
	c *corpus
}

// mutate returns one structure-aware mutation of seed and its class
func (m *mutator) mutate(seed []byte) ([]byte, string) {
	r := m.r
	if len(seed) == 0 {
		return r.Bytes(r.Intn(16)), "random"
	}
	switch k := r.Intn(20); {
	case k < 3:
		return seed[:r.Intn(len(seed))], "truncate"
	case k < 6:
		b := append([]byte(nil), seed...)
		p := r.Intn(len(b))
		switch r.Intn(4) {
		case 0:
			b[p] ^= 1 << uint(r.Intn(8))
		case 1:
			b[p] = vh.PickOne(r, []byte{0x00, 0x17, 0x18, 0x1b, 0x1f, 0x3b, 0x5f, 0x7f, 0x80, 0x9f, 0xa0, 0xbf, 0xc2, 0xd8, 0xf6, 0xf7, 0xf8, 0xfb, 0xff})
		case 2:
			b[p] = b[p]&0xe0 | byte(24+r.Intn(8)) // widen / reserve / indefinite the additional info
		default:
			b[p] = byte(r.U64())
		}
		return b, "byte-mutation"
	}
	sp := spansOf(seed)
	if len(sp) == 0 {
		b := append([]byte(nil), seed...)
		b[r.Intn(len(b))] = byte(r.U64())
		return b, "byte-mutation"
	}
	s := sp[r.Intn(len(sp))]
	switch k := r.Intn(14); {
	case k < 4:
		// length-field inflation of a string / array / map header (contents kept)
		var cands []span
		for _, x := range sp {
			if x.major >= 2 && x.major <= 5 {
				cands = append(cands, x)
			}
		}
		if len(cands) == 0 {
			return splice(seed, s.off, s.off+s.hdr, head(4, 0xffffffff, 4)), "inflate-len"
		}
		x := cands[r.Intn(len(cands))]
		if r.Intn(6) == 0 {
			x = cands[0]
		}
		inf := inflated[r.Intn(len(inflated))]
		return splice(seed, x.off, x.off+x.hdr, head(x.major, inf.n, inf.w)), "inflate-len"
	case k < 6:
		// deep nesting spliced in place of a sub-item
		d := vh.PickOne(r, []int{10, 64, 200, 255, 256, 257, 258, 300, 1000, 5000})
		return splice(seed, s.off, s.end, nest(r.Intn(8), d, seed[s.off:s.end])), "nest-splice"
	case k < 8:
		// tag substitution / insertion
		t := substTags[r.Intn(len(substTags))]
		w := 8
		if t < 24 {
			w = 0
		} else if t < 256 {
			w = 1
		} else if t < 65536 {
			w = 2
		} else if t <= 0xffffffff {
			w = 4
		}
		if s.major == 6 {
			return splice(seed, s.off, s.off+s.hdr, head(6, t, w)), "tag-subst"
		}
		return splice(seed, s.off, s.off, head(6, t, w)), "tag-subst"
	case k < 11:
		// type confusion: the sub-item is replaced by an item of another kind
		var with []byte
		switch r.Intn(5) {
		case 0:
			with = vh.RandItem(r, 2).Enc()
		case 1:
			with = []byte{vh.PickOne(r, []byte{0xf6, 0xf7, 0xf4, 0x80, 0xa0, 0x40, 0x60, 0x00, 0x20, 0x9f, 0xbf, 0x5f})}
			if with[0] == 0x9f || with[0] == 0xbf || with[0] == 0x5f {
				with = append(with, 0xff)
			}
		case 2:
			with = head(vh.PickOne(r, []byte{0, 1}), r.Boundary(), 8)
		case 3:
			with = vh.PickOne(r, [][]byte{{0xc2, 0x49, 1, 0, 0, 0, 0, 0, 0, 0, 0}, {0xc3, 0x40}, {0xc2, 0x40}, {0xfb, 0x7f, 0xf8, 0, 0, 0, 0, 0, 0}, {0xf9, 0x7c, 0x00}, {0xf8, 0xff}, {0xd8, 0x18, 0x41, 0xff}, {0xd8, 0x18, 0x40}})
		default:
			o := m.c.small[r.Intn(len(m.c.small))]
			with = o
		}
		return splice(seed, s.off, s.end, with), "type-confusion"
	case k < 12:
		// drop or duplicate a sub-item (count no longer matches)
		if r.Bool() {
			return splice(seed, s.off, s.end, nil), "drop-item"
		}
		return splice(seed, s.off, s.off, seed[s.off:s.end]), "dup-item"
	default:
		// definite <-> indefinite header
		if (s.major == 4 || s.major == 5) && seed[s.off]&31 != 31 {
			b := splice(seed, s.end, s.end, []byte{0xff})
			return splice(b, s.off, s.off+s.hdr, []byte{s.major<<5 | 31}), "to-indefinite"
		}
		return splice(seed, s.off, s.off+s.hdr, head(s.major, uint64(r.Intn(40)), vh.PickOne(r, []int{0, 1, 2, 4, 8}))), "rewrite-head"
	}
}

// fixed adversarial inputs, independent of the seeds
func adversarial(thorough bool) []struct {
	b     []byte
	class string
} {
	var out []struct {
		b     []byte
		class string
	}
	add := func(b []byte, class string) {
		out = append(out, struct {
			b     []byte
			class string
		}{b, class})
	}
	add(nil, "empty")
	depths := []int{10, 100, 255, 256, 257, 1000, 10000, 100000}
	for kind := 0; kind < 8; kind++ {
		for _, d := range depths {
			if d > 10000 && kind > 3 && !thorough {
				continue
			}
			add(nest(kind, d, []byte{0x00}), fmt.Sprintf("nest-depth-%d", d))
		}
		// unterminated nesting (input ends inside)
		add(nest(kind, 300, nil), "nest-unterminated")
	}
	for _, mt := range []byte{2, 3, 4, 5} {
		for _, inf := range inflated {
			add(head(mt, inf.n, inf.w), "inflate-bare")
			add(append(head(mt, inf.n, inf.w), 0x00, 0x00, 0x41, 0x00, 0x80), "inflate-bare")
			// inside a message-like envelope [0, <inflated>]
			add(append([]byte{0x82, 0x00}, head(mt, inf.n, inf.w)...), "inflate-in-list")
			add(append([]byte{0x83, 0x01}, append(head(mt, inf.n, inf.w), 0x00)...), "inflate-in-list")
		}
	}
	// every header form of every major type cut at every length, bare and as the last element of a list / map / tag
	for mt := byte(0); mt < 8; mt++ {
		for _, w := range []int{1, 2, 4, 8} {
			h := head(mt, 0x0102030405060708>>(8*uint(8-w)), w)
			for cut := 1; cut <= len(h); cut++ {
				add(h[:cut], "trunc-head")
				add(append([]byte{0x81}, h[:cut]...), "trunc-head")
				add(append([]byte{0x83, 0x00, 0x80}, h[:cut]...), "trunc-head")
				if cut < len(h) {
					add(append([]byte{0xa1, 0x00}, h[:cut]...), "trunc-head")
					add(append([]byte{0xd8, 0x18}, h[:cut]...), "trunc-head")
				}
			}
		}
	}
	ks := []int{1000, 65536}
	if thorough {
		ks = append(ks, 300000)
	}
	for kind := 0; kind <= 8; kind++ {
		for _, k := range ks {
			add(chunks(kind, k), fmt.Sprintf("chunks-%d", k))
			add(append([]byte{0x82, 0x00}, chunks(kind, k)...), fmt.Sprintf("chunks-%d", k))
		}
	}
	return out
}
