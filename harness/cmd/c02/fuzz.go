// C02 part (b) - DIFFERENTIAL FUZZING (not a proof) of every public decoding
// entry point: outcome class {value, error, panic}, wall time and allocated
// bytes per case, under a memory ceiling and a watchdog.
package main

import (
	"crypto/sha1"
	"encoding/json"
	"fmt"
	"os"
	"path/filepath"
	"runtime"
	"runtime/debug"
	"runtime/metrics"
	"sort"
	"strings"
	"sync/atomic"
	"syscall"
	"time"

	"verifharness/vh"
)

// limits of the monitor.  A decoder call on an input of n bytes violates the
// property when it panics, runs longer than slowAfter(n), or keeps more than
// allocBudget(n) bytes of heap alive at its peak.  The cheap first stage
// compares the CUMULATIVE allocation of the call (an upper bound of the peak)
// with the budget; only cases above it are re-run with the peak-live-heap
// measurement (measureLive).
const (
	heapCeiling = 6 << 30 // watchdog aborts the run when the live heap exceeds this
	memLimit    = 8 << 30 // debug.SetMemoryLimit
)

// time limits.  The machine is shared (load average far above the core count
// during development; wall times of one and the same case varied by 4x) and
// several decoders legitimately spend ~30 us per array element on a
// mismatching element type, so (1) the "slow" rule is on CPU time of the
// process (getrusage), not wall time: a case is a violation when it needs more
// than 10 s + 200 us per input byte of CPU (process-wide, so it includes the
// collector's worker threads: 13 s were observed for the 131 KB formatter case); (2) a case that has not returned
// after 120 s + 400 us per byte of WALL time is abandoned (the run stops with
// a violation: a stuck decoder cannot be cancelled).
func slowAfter(n int) time.Duration    { return 10*time.Second + time.Duration(n)*200*time.Microsecond }
func abandonAfter(n int) time.Duration { return 120*time.Second + time.Duration(n)*400*time.Microsecond }

// allocBudget: 64 MiB flat plus 4 KiB per input byte.  The measured maxima on
// the unchanged tree are reported in the evidence notes; they are more than an
// order of magnitude below this line (see notes/C02.md).
func allocBudget(n int) uint64 { return 64<<20 + 4096*uint64(n) }

// liveBudget is the violation line of the second stage.  The flat part is
// larger because the live-heap measurement still contains the garbage of one
// collection cycle (observed: up to ~60 MiB for the pretty-printer on a loaded
// machine, with a truly live heap of a few MiB).
func liveBudget(n int) uint64 { return 256<<20 + 4096*uint64(n) }

type freplay struct {
	Entry string `json:"entry"`
	Class string `json:"class"`
	Hex   string `json:"hex"`
}

type job struct {
	e    *entry
	in   []byte
	live bool // second stage: measure the peak live heap instead of the cumulative allocation
}

type outcome struct {
	panicked bool
	pval     any
	err      error
	dur      time.Duration
	alloc    uint64
}

type epStat struct {
	cases, values, errors, panics int
	maxAlloc                      uint64
	maxAllocLen                   int
	maxRatio                      float64 // alloc / max(len,64) over inputs
	maxDur                        time.Duration
	maxAllocIn, maxDurIn          string
	maxLive                       uint64
	maxLiveIn                     string
}

type fuzzer struct {
	c     *vh.Ctx
	jobs  chan job
	done  chan outcome
	blow  chan uint64
	timer *time.Timer
	hs    []metrics.Sample
	stats map[string]*epStat
	cls   map[string]int
	stop  bool
	total int
	heapBase atomic.Uint64 // live heap when the current case started (the harness keeps results of its own)
	// inflight.json kept open
	infl     *os.File
	inflLen  int
	restaged int
}

func newFuzzer(c *vh.Ctx) *fuzzer {
	f := &fuzzer{c: c, jobs: make(chan job), done: make(chan outcome), blow: make(chan uint64, 1),
		stats: map[string]*epStat{}, cls: map[string]int{}, hs: []metrics.Sample{{Name: "/memory/classes/heap/objects:bytes"}}}
	debug.SetMemoryLimit(memLimit)
	go f.worker()
	go f.watchdog()
	f.timer = time.NewTimer(time.Hour)
	return f
}

// allocated returns the cumulative number of heap bytes allocated by the
// process (runtime/metrics, no stop-the-world; same quantity as
// runtime.MemStats.TotalAlloc)
func allocated(s []metrics.Sample) uint64 {
	metrics.Read(s)
	return s[0].Value.Uint64()
}

// cpuTime is the CPU time (user+system) consumed by this process so far.  Only
// the worker goroutine runs decoder code, so the delta over a case is the
// case's own cost plus the collector's; unlike wall time it is not inflated
// by other processes competing for the machine.
func cpuTime() time.Duration {
	var ru syscall.Rusage
	if syscall.Getrusage(syscall.RUSAGE_SELF, &ru) != nil {
		return 0
	}
	return time.Duration(ru.Utime.Nano() + ru.Stime.Nano())
}

func liveHeap(s []metrics.Sample) uint64 {
	metrics.Read(s)
	return s[0].Value.Uint64()
}

func (f *fuzzer) worker() {
	sa := []metrics.Sample{{Name: "/gc/heap/allocs:bytes"}}
	for j := range f.jobs {
		var o outcome
		if j.live {
			o = f.measureLive(j)
			f.done <- o
			continue
		}
		a0 := allocated(sa)
		c0 := cpuTime()
		o.panicked, o.pval = vh.Recover(func() { o.err = j.e.fn(j.in) })
		o.dur = cpuTime() - c0
		o.alloc = allocated(sa) - a0
		f.done <- o
	}
}

// measureLive re-runs a case whose cumulative allocation exceeded the budget
// and measures the PEAK LIVE HEAP: a sampler goroutine forces complete
// collections back to back (runtime.GC returns after mark and sweep) and
// reads the heap-objects metric after each one.  Objects allocated while a
// mark phase runs are kept by that cycle, so a short-lived huge allocation is
// seen with high probability as well (two repetitions, the larger value
// counts).  What the number still contains is the garbage produced during one
// cycle (observed up to ~60 MiB for the pretty-printer on a loaded machine,
// true live heap a few MiB): hence the larger flat part of liveBudget.
func (f *fuzzer) measureLive(j job) outcome {
	best := f.measureLiveOnce(j)
	if !best.panicked {
		if o := f.measureLiveOnce(j); o.alloc > best.alloc {
			best = o
		}
	}
	return best
}

func (f *fuzzer) measureLiveOnce(j job) outcome {
	var o outcome
	sl := []metrics.Sample{{Name: "/memory/classes/heap/objects:bytes"}}
	runtime.GC()
	runtime.GC()
	base := liveHeap(sl)
	stop := make(chan struct{})
	res := make(chan uint64)
	go func() {
		ss := []metrics.Sample{{Name: "/memory/classes/heap/objects:bytes"}}
		var peak uint64
		for {
			runtime.GC()
			if v := liveHeap(ss); v > peak {
				peak = v
			}
			select {
			case <-stop:
				res <- peak
				return
			default:
			}
		}
	}()
	t0 := time.Now()
	o.panicked, o.pval = vh.Recover(func() { o.err = j.e.fn(j.in) })
	o.dur = time.Since(t0)
	close(stop)
	if p := <-res; p > base {
		o.alloc = p - base
	}
	return o
}

// watchdog samples the live heap (runtime/metrics: no stop-the-world) and
// reports when it passes the ceiling, so that a blow-up is a recorded
// violation and not a dead machine.
func (f *fuzzer) watchdog() {
	s := []metrics.Sample{{Name: "/memory/classes/heap/objects:bytes"}}
	for {
		time.Sleep(10 * time.Millisecond)
		metrics.Read(s)
		if v := s[0].Value.Uint64(); v > f.heapBase.Load()+heapCeiling {
			select {
			case f.blow <- v:
			default:
			}
			return
		}
	}
}

func short(b []byte) string {
	h := vh.Hex(b)
	if len(h) > 96 {
		return fmt.Sprintf("%s..(%d bytes)", h[:96], len(b))
	}
	return h
}

// exec hands one job to the worker and waits for it under the watchdogs; ok
// is false when the run has to stop (a stuck or exploding decoder cannot be
// cancelled)
func (f *fuzzer) exec(e *entry, in []byte, class string, live bool, rp freplay) (outcome, bool) {
	if !f.timer.Stop() {
		select {
		case <-f.timer.C:
		default:
		}
	}
	limit := abandonAfter(len(in))
	f.timer.Reset(limit)
	f.heapBase.Store(liveHeap(f.hs))
	f.jobs <- job{e, in, live}
	select {
	case o := <-f.done:
		return o, true
	case <-f.timer.C:
		f.c.Res.Violate("monitor", e.name+":timeout", fmt.Sprintf("%s did not return within %v on a %d-byte input (%s): %s", e.name, limit, len(in), class, short(in)), rp)
	case v := <-f.blow:
		f.c.Res.Violate("monitor", e.name+":alloc-blowup", fmt.Sprintf("%s: live heap reached %d MiB while decoding a %d-byte input (%s): %s", e.name, v>>20, len(in), class, short(in)), rp)
	}
	f.stop = true
	return outcome{}, false
}

// begin leaves the case about to run behind (same file and content as
// vh.Ctx.Begin, through one descriptor kept open: two system calls per case)
func (f *fuzzer) begin(rp freplay) {
	if f.infl == nil {
		f.c.Begin(rp)
		fd, err := os.OpenFile(filepath.Join(f.c.Out, "inflight.json"), os.O_WRONLY, 0o644)
		if err != nil {
			return
		}
		f.infl = fd
		return
	}
	b, _ := json.Marshal(rp)
	if len(b) < f.inflLen {
		f.infl.Truncate(int64(len(b)))
	}
	f.infl.WriteAt(b, 0)
	f.inflLen = len(b)
}

// one runs one case; it returns false when the run has to stop
func (f *fuzzer) one(e *entry, in []byte, class string) bool {
	if f.stop {
		return false
	}
	rp := freplay{e.name, class, vh.Hex(in)}
	f.begin(rp)
	f.total++
	f.cls[class]++
	st := f.stats[e.name]
	if st == nil {
		st = &epStat{}
		f.stats[e.name] = st
	}
	st.cases++
	o, ok := f.exec(e, in, class, false, rp)
	if !ok {
		return false
	}
	nontrivial := class != "random" && class != "empty"
	sum := sha1.Sum(in)
	f.c.Res.Count(e.name+"|"+string(sum[:]), nontrivial, "")
	switch {
	case o.panicked:
		st.panics++
		f.c.Res.Violate("monitor", e.name+":panic", fmt.Sprintf("%s panicked on a %d-byte input (%s) %s: %v", e.name, len(in), class, short(in), o.pval), rp)
	case o.err == nil:
		st.values++
	default:
		st.errors++
	}
	if o.dur > st.maxDur {
		st.maxDur = o.dur
		st.maxDurIn = class + " " + short(in)
	}
	if o.dur > slowAfter(len(in)) {
		f.c.Res.Violate("monitor", e.name+":timeout", fmt.Sprintf("%s used %v of CPU on a %d-byte input (%s): %s", e.name, o.dur, len(in), class, short(in)), rp)
	}
	if o.alloc > st.maxAlloc {
		st.maxAlloc, st.maxAllocLen = o.alloc, len(in)
		st.maxAllocIn = class + " " + short(in)
	}
	d := len(in)
	if d < 64 {
		d = 64
	}
	if r := float64(o.alloc) / float64(d); r > st.maxRatio {
		st.maxRatio = r
	}
	if o.alloc > allocBudget(len(in)) {
		// second stage: the cumulative allocation is only an upper bound of the
		// memory in use; measure the peak live heap of the same case
		f.restaged++
		lo, ok := f.exec(e, in, class, true, rp)
		if !ok {
			return false
		}
		if lo.alloc > st.maxLive {
			st.maxLive = lo.alloc
			st.maxLiveIn = fmt.Sprintf("%s %s (cumulative %d MiB)", class, short(in), o.alloc>>20)
		}
		if lo.alloc > liveBudget(len(in)) {
			n := 64
			for uint64(n)*uint64(d) < lo.alloc/2 && n < 1<<30 {
				n *= 4
			}
			f.c.Res.Violate("monitor", fmt.Sprintf("%s:alloc-ratio>%d", e.name, n), fmt.Sprintf("%s: peak live heap %d bytes (cumulative allocation %d bytes) while decoding a %d-byte input (%s): %s", e.name, lo.alloc, o.alloc, len(in), class, short(in)), rp)
		}
	}
	return true
}

func (f *fuzzer) seedsFor(cp *corpus, e *entry) [][]byte {
	s := cp.groups[e.group]
	if strings.Contains(e.name, "WithOffsets") {
		s = append(append([][]byte(nil), s...), cp.groups["synth"]...)
	}
	if strings.HasPrefix(e.group, "msg:") && e.id >= 0 {
		// prefer vectors of this message type
		var own [][]byte
		for _, b := range s {
			if len(b) >= 2 && b[0]&0xe0 == 0x80 && int(b[1]) == e.id {
				own = append(own, b)
			}
		}
		if len(own) > 0 {
			return own
		}
	}
	return s
}

func runFuzz(c *vh.Ctx, only string, rp *freplay) {
	es := entries()
	f := newFuzzer(c)
	if rp != nil {
		for i := range es {
			if es[i].name == rp.Entry {
				f.one(&es[i], vh.UnHex(rp.Hex), rp.Class)
			}
		}
		f.report(es, nil)
		return
	}
	cp, err := loadCorpus(c.Rng.Fork())
	if err != nil {
		fmt.Fprintln(os.Stderr, "corpus:", err)
		os.Exit(3)
	}
	// the structured "tag semantics" stream first (systematic, see tagsem.go)
	f.runTagSemantics(c, es, cp, only)
	adv := adversarial(c.Thorough())
	perEntry := c.Pick(20, 250)
	for i := range es {
		e := &es[i]
		if only != "" && !strings.Contains(e.name, only) {
			continue
		}
		r := c.Rng.Fork()
		mu := &mutator{r: r, c: cp}
		seeds := f.seedsFor(cp, e)
		// 1. the seeds themselves (mostly valid), capped
		capSeeds := c.Pick(16, 80)
		for k := 0; k < len(seeds) && k < capSeeds; k++ {
			s := seeds[k]
			if len(seeds) > capSeeds {
				s = seeds[(k*len(seeds))/capSeeds]
			}
			if !f.one(e, s, "seed") {
				break
			}
		}
		// 2. fixed adversarial inputs: nesting, inflated lengths, chunk counts.
		// Quick tier: every entry point gets a seed-dependent sixth of the list
		// (entries of weight >= 3 and the thorough tier get all of it).
		for k, a := range adv {
			if !c.Thorough() && e.weight < 3 {
				if len(a.b) > 70000 || (k+i+int(c.Seed))%6 != 0 {
					continue
				}
			}
			if !f.one(e, a.b, a.class) {
				break
			}
		}
		// 3. random bytes and mutations of the seeds
		n := perEntry * e.weight
		for k := 0; k < n && !f.stop; k++ {
			if len(seeds) == 0 || r.Intn(12) == 0 {
				b := r.Bytes(r.Intn(48))
				if r.Bool() && len(b) > 0 {
					b[0] = vh.PickOne(r, []byte{0x80, 0x81, 0x82, 0x83, 0x84, 0x85, 0x98, 0x9f, 0xa0, 0xa1, 0xa4, 0xbf, 0xd8, 0x58, 0x01, 0x41, 0x61, 0x71, 0xe1, 0xf1})
				}
				f.one(e, b, "random")
				continue
			}
			s := seeds[r.Intn(len(seeds))]
			// big block fixtures: mutate them less often than their parts
			if len(s) > 6000 && r.Intn(3) != 0 {
				s = seeds[r.Intn(len(seeds))]
			}
			b, class := mu.mutate(s)
			if r.Intn(8) == 0 {
				b, _ = mu.mutate(b) // second-order mutation
				class = "double:" + class
			}
			f.one(e, b, class)
		}
		if f.stop {
			break
		}
	}
	f.report(es, cp)
}

func (f *fuzzer) report(es []entry, cp *corpus) {
	c := f.c
	for k, v := range f.cls {
		if c.Res.Distribution == nil {
			c.Res.Distribution = map[string]int{}
		}
		c.Res.Distribution["fuzz:"+k] += v
	}
	// measured maxima, largest first
	type row struct {
		name string
		s    *epStat
	}
	var rows []row
	var values, errs, panics int
	for n, s := range f.stats {
		rows = append(rows, row{n, s})
		values += s.values
		errs += s.errors
		panics += s.panics
	}
	sort.Slice(rows, func(i, j int) bool { return rows[i].s.maxAlloc > rows[j].s.maxAlloc })
	c.Res.Notes = append(c.Res.Notes, fmt.Sprintf("FUZZING (not a proof): %d cases over %d public entry points: %d values, %d errors, %d panics; violation rule: panic, CPU time > 10 s + 200 us/byte (abandoned after 120 s + 400 us/byte wall), or peak live heap > 256 MiB + 4096 B per input byte (first stage: cumulative allocation of the call <= 64 MiB + 4096 B/byte settles it; %d cases needed the second stage = forced-GC peak-live measurement, max of 2)",
		f.total, len(f.stats), values, errs, panics, f.restaged))
	for i, r := range rows {
		if i >= 8 {
			break
		}
		c.Res.Notes = append(c.Res.Notes, fmt.Sprintf("max alloc %s: %.1f MiB on a %d-byte input (max ratio %.0f B/byte, max cpu %v, %d cases)",
			r.name, float64(r.s.maxAlloc)/(1<<20), r.s.maxAllocLen, r.s.maxRatio, r.s.maxDur.Round(time.Millisecond), r.s.cases)+" ["+r.s.maxAllocIn+"]")
	}
	sort.Slice(rows, func(i, j int) bool { return rows[i].s.maxLive > rows[j].s.maxLive })
	for i, r := range rows {
		if i >= 4 || r.s.maxLive == 0 {
			break
		}
		c.Res.Notes = append(c.Res.Notes, fmt.Sprintf("second stage %s: peak live heap %.1f MiB [%s]", r.name, float64(r.s.maxLive)/(1<<20), r.s.maxLiveIn))
	}
	sort.Slice(rows, func(i, j int) bool { return rows[i].s.maxDur > rows[j].s.maxDur })
	for i, r := range rows {
		if i >= 3 {
			break
		}
		c.Res.Notes = append(c.Res.Notes, fmt.Sprintf("max cpu time %s: %v (%d cases) [%s]", r.name, r.s.maxDur.Round(time.Millisecond), r.s.cases, r.s.maxDurIn))
	}
	sort.Slice(rows, func(i, j int) bool { return rows[i].s.maxRatio > rows[j].s.maxRatio })
	for i, r := range rows {
		if i >= 3 {
			break
		}
		c.Res.Notes = append(c.Res.Notes, fmt.Sprintf("max ratio %s: %.0f allocated bytes per input byte (inputs below 64 bytes counted as 64)", r.name, r.s.maxRatio))
	}
	if cp != nil {
		c.Res.Notes = append(c.Res.Notes, strings.Join(cp.notes, "; "))
	}
	c.Res.Sample(map[string]any{"entry_points": len(f.stats), "cases": f.total, "values": values, "errors": errs, "panics": panics})
}
