// Independent oracle for C05, written from CIP-19 (Shelley-family address
// layout and bech32 prefixes), the Byron address CDDL
//   [ #6.24(bytes .cbor [hash28, attributes, type]), crc32 ]
// and cardano-multiplatform-lib's TRAILING_WHITELIST.  It does not call or
// copy the code under test.
package main

import (
	"bytes"
	"fmt"
	"hash/crc32"
	"strings"

	"github.com/blinklabs-io/gouroboros/ledger/common"

	"verifharness/vh"
)

// TRAILING_WHITELIST of cardano-multiplatform-lib (the only wrong-length
// addresses that exist on mainnet); hex so that it is not a copy of the Go table
var cmlTrailingWhitelist = func() [][]byte {
	var out [][]byte
	for _, h := range []string{
		"cb57afb0b35fc89c63061c9914e055001a518c7516",
		"13d5f4a3fe0478b2241e0168e3cba5001a22c15a11",
		"00",
		"6a33306635616d6b776877716134777666796a64657a7961656c6d6e6e676436643465",
		"35616379327230656b7270717a716a6c71646b386c7a716e357234356e",
		"061d070c0d041b07020f0b0d0b0f020912051d1c100911040e1f0713110301000b101600",
		"126e7735333567367673703778376668787071327074736839676b72",
		"2c",
	} {
		out = append(out, vh.UnHex(h))
	}
	return out
}()

func inWhitelist(t []byte) bool {
	for _, w := range cmlTrailingWhitelist {
		if bytes.Equal(w, t) {
			return true
		}
	}
	return false
}

func specHrp(ty, net byte) string {
	p := "addr"
	if ty == 14 || ty == 15 {
		p = "stake"
	}
	if net != 1 {
		p += "_test"
	}
	return p
}

type specAddr struct {
	validHeader bool
	ty, net     byte
	tooShort    bool
	rest        []byte // what follows the exact CIP-19 length
	pay, stake  []byte // 28-byte credentials or nil
	minimal     bool   // pointer varints are minimal and fit 64 bits
}

// scan one base-128 varint: returns its length, or 0 when unterminated
func scanVar(b []byte) (n int, minimal bool) {
	for i, x := range b {
		if x&0x80 == 0 {
			n = i + 1
			minimal = (n == 1 || b[0] != 0x80) && (n <= 9 || (n == 10 && b[0] == 0x81))
			return
		}
	}
	return 0, false
}

func specDecode(b []byte) (s specAddr) {
	s.ty, s.net = b[0]>>4, b[0]&0x0f
	s.validHeader = (s.ty <= 7 || s.ty == 14 || s.ty == 15) && s.net <= 1
	s.minimal = true
	if !(s.ty <= 7 || s.ty == 14 || s.ty == 15) {
		return
	}
	need := 29
	if s.ty <= 3 {
		need = 57
	}
	if len(b) < need {
		s.tooShort = true
		return
	}
	if s.ty <= 7 {
		s.pay = b[1:29]
	}
	if s.ty <= 3 {
		s.stake = b[29:57]
	}
	if s.ty >= 14 {
		s.stake = b[1:29]
	}
	s.rest = b[need:]
	if s.ty == 4 || s.ty == 5 {
		for i := 0; i < 3; i++ {
			n, min := scanVar(s.rest)
			if n == 0 {
				s.tooShort = true
				return
			}
			s.minimal = s.minimal && min
			s.rest = s.rest[n:]
		}
	}
	return
}

var zero28 = make([]byte, 28)

func orZero(b []byte) []byte {
	if b == nil {
		return zero28
	}
	return b
}

func monitorBytes(c *vh.Ctx, b []byte, o observed, rp replay, note string) {
	v := func(key, what string) { c.Res.Violate("monitor", key, what, rp) }
	if len(b) == 0 {
		if o.ok {
			v("empty-accepted", "the empty byte string was accepted as an address")
		}
		return
	}
	if b[0]>>4 == 8 {
		monitorByron(c, b, o, rp, note)
		return
	}
	s := specDecode(b)
	hx := vh.Hex(b)
	if !o.ok {
		if s.validHeader && !s.tooShort && len(s.rest) == 0 {
			v(fmt.Sprintf("valid-address-rejected:type%d", s.ty), "a well-formed CIP-19 address was rejected: "+hx)
		}
		return
	}
	// accepted
	if !(s.ty <= 7 || s.ty == 14 || s.ty == 15) {
		v(fmt.Sprintf("unknown-type-accepted:%d", s.ty), "address with unknown type accepted: "+hx)
		return
	}
	if s.net > 1 {
		v(fmt.Sprintf("wrong-network-accepted:%d", s.net), "address with network nibble other than 0/1 accepted: "+hx)
	}
	if s.tooShort {
		v(fmt.Sprintf("short-address-accepted:type%d", s.ty), "address shorter than its type requires accepted: "+hx)
		return
	}
	if len(s.rest) > 0 {
		if s.net == 1 && inWhitelist(s.rest) {
			v("mainnet-trailer-whitelist-accepted", fmt.Sprintf("mainnet address of wrong length accepted because its %d trailing byte(s) are in the known-malformed table: %s", len(s.rest), hx))
		} else {
			v(fmt.Sprintf("wrong-length-accepted:type%d-net%d", s.ty, s.net), fmt.Sprintf("address with %d unexpected trailing byte(s) accepted: %s", len(s.rest), hx))
		}
	}
	if o.typ != s.ty {
		v("type-field-mismatch", fmt.Sprintf("Type()=%d but the header high nibble is %d: %s", o.typ, s.ty, hx))
	}
	if o.net != uint(s.net) {
		v("network-field-mismatch", fmt.Sprintf("NetworkId()=%d but the header low nibble is %d: %s", o.net, s.net, hx))
	}
	if !bytes.Equal(o.pay, orZero(s.pay)) {
		v(fmt.Sprintf("payment-hash-mismatch:type%d", s.ty), fmt.Sprintf("PaymentKeyHash()=%x, bytes [1,29) are %x: %s", o.pay, orZero(s.pay), hx))
	}
	if !bytes.Equal(o.stake, orZero(s.stake)) {
		v(fmt.Sprintf("stake-hash-mismatch:type%d", s.ty), fmt.Sprintf("StakeKeyHash()=%x, expected %x: %s", o.stake, orZero(s.stake), hx))
	}
	if s.minimal && !bytes.Equal(o.out, b) {
		v(fmt.Sprintf("bytes-roundtrip-lossy:type%d", s.ty), fmt.Sprintf("Bytes()=%x differs from the decoded input %s", o.out, hx))
	}
	if o.hrp != specHrp(s.ty, s.net) && s.net <= 1 {
		v(fmt.Sprintf("hrp-mismatch:type%d-net%d", s.ty, s.net), fmt.Sprintf("String()=%s has prefix %q, CIP-19 says %q", o.str, o.hrp, specHrp(s.ty, s.net)))
	}
	if !bytes.Equal(o.strDat, o.out) {
		v("string-data-mismatch", fmt.Sprintf("String()=%s carries %x, Bytes()=%x", o.str, o.strDat, o.out))
	}
	// text round trip
	var a2 common.Address
	var err error
	if p, pv := vh.Recover(func() { a2, err = common.NewAddress(o.str) }); p {
		v("address-panic", fmt.Sprintf("NewAddress panicked on %s: %v", o.str, pv))
		return
	}
	if err != nil {
		v(fmt.Sprintf("text-roundtrip-rejected:type%d", s.ty), fmt.Sprintf("NewAddress(String()) failed for %s: %v", o.str, err))
		return
	}
	b2, _ := a2.Bytes()
	if !bytes.Equal(b2, o.out) || a2.String() != o.str {
		v(fmt.Sprintf("text-roundtrip-lossy:type%d", s.ty), fmt.Sprintf("NewAddress(%s).Bytes()=%x, expected %x", o.str, b2, o.out))
	}
}

// byronValid: canonical Byron address per the CDDL: exactly one CBOR item
// [#6.24(bytes), uint] with crc32(bytes) = uint, bytes = exactly one item
// [hash28, {?1: bytes, ?2: bytes}, uint], everything in shortest form
func byronValid(b []byte) bool {
	it, n, err := vh.ParseItem(b)
	if err != nil || n != len(b) || !it.Minimal() {
		return false
	}
	if it.K != vh.KArr || it.F == vh.Findef || len(it.Xs) != 2 {
		return false
	}
	tg, ck := it.Xs[0], it.Xs[1]
	if tg.K != vh.KTag || tg.N != 24 || tg.Xs[0].K != vh.KBStr || ck.K != vh.KUInt {
		return false
	}
	pl := tg.Xs[0].Bs
	if uint64(crc32.ChecksumIEEE(pl)) != ck.N {
		return false
	}
	in, n, err := vh.ParseItem(pl)
	if err != nil || n != len(pl) || !in.Minimal() {
		return false
	}
	if in.K != vh.KArr || in.F == vh.Findef || len(in.Xs) != 3 {
		return false
	}
	if in.Xs[0].K != vh.KBStr || len(in.Xs[0].Bs) != 28 || in.Xs[1].K != vh.KMap || in.Xs[1].F == vh.Findef || in.Xs[2].K != vh.KUInt {
		return false
	}
	// attributes: keys 1 (non-empty bytes) and 2 (bytes holding one shortest-form uint32), ascending
	last := uint64(0)
	kvs := in.Xs[1].Xs
	for i := 0; i+1 < len(kvs); i += 2 {
		k, val := kvs[i], kvs[i+1]
		if k.K != vh.KUInt || k.N <= last || k.N > 2 || val.K != vh.KBStr || len(val.Bs) == 0 {
			return false
		}
		last = k.N
		if k.N == 2 {
			u, n, err := vh.ParseItem(val.Bs)
			if err != nil || n != len(val.Bs) || u.K != vh.KUInt || !u.Minimal() || u.N >= 1<<32 {
				return false
			}
		}
	}
	return true
}

func monitorByron(c *vh.Ctx, b []byte, o observed, rp replay, note string) {
	v := func(key, what string) { c.Res.Violate("monitor", key, what, rp) }
	hx := vh.Hex(b)
	switch note {
	case "byron-canonical":
		if !o.ok {
			v("byron-valid-rejected", "a canonical Byron address was rejected: "+hx)
			return
		}
	case "byron-bad-crc", "byron-payload-flip":
		if o.ok {
			v("byron-bad-crc-accepted", "a Byron address whose CRC-32 does not match its payload was accepted: "+hx)
		}
		return
	case "byron-trailing":
		if o.ok {
			v("byron-trailing-bytes-accepted", fmt.Sprintf("a Byron address followed by extra bytes was accepted (Bytes()=%x): %s", o.out, hx))
		}
		return
	case "byron-inner-trailing":
		if o.ok {
			v("byron-inner-trailing-bytes-accepted", fmt.Sprintf("a Byron address whose tag-24 payload has bytes after the [hash, attributes, type] item was accepted (Bytes()=%x): %s", o.out, hx))
		}
		return
	case "byron-hash-length":
		if o.ok {
			v("byron-hash-length-accepted", "a Byron address whose root hash is not 28 bytes was accepted: "+hx)
		}
		return
	}
	if !o.ok {
		return
	}
	// accepted Byron address: generic consistency
	it, n, err := vh.ParseItem(b)
	if err != nil || it.K != vh.KArr || len(it.Xs) != 2 || it.Xs[0].K != vh.KTag || it.Xs[0].Xs[0].K != vh.KBStr || it.Xs[1].K != vh.KUInt {
		return // outside what this oracle understands
	}
	pl := it.Xs[0].Xs[0].Bs
	if uint64(crc32.ChecksumIEEE(pl)) != it.Xs[1].N {
		v("byron-bad-crc-accepted", "a Byron address whose CRC-32 does not match its payload was accepted: "+hx)
		return
	}
	if n != len(b) {
		v("byron-trailing-bytes-accepted", fmt.Sprintf("a Byron address followed by extra bytes was accepted (Bytes()=%x): %s", o.out, hx))
		return
	}
	if o.typ != 8 {
		v("type-field-mismatch", "Type() of a Byron address is not 8: "+hx)
	}
	if in, _, err := vh.ParseItem(pl); err == nil && in.K == vh.KArr && len(in.Xs) == 3 && in.Xs[0].K == vh.KBStr {
		if !bytes.Equal(o.pay, in.Xs[0].Bs) {
			v("byron-hash-mismatch", fmt.Sprintf("PaymentKeyHash()=%x, the address root is %x", o.pay, in.Xs[0].Bs))
		}
	}
	if byronValid(b) {
		if !bytes.Equal(o.out, b) {
			v("byron-bytes-roundtrip-lossy", fmt.Sprintf("Bytes()=%x differs from the canonical input %s", o.out, hx))
		}
		if !bytes.Equal(o.strDat, b) {
			v("byron-base58-roundtrip", fmt.Sprintf("String()=%s carries %x, input %s", o.str, o.strDat, hx))
		}
	}
}

func monitorText(c *vh.Ctx, h string, d []byte, acc bool, got common.Address, rp replay) {
	v := func(key, what string) { c.Res.Violate("monitor", key, what, rp) }
	if len(d) == 0 {
		if acc {
			v("empty-accepted", "bech32 text with empty data accepted")
		}
		return
	}
	s := specDecode(d)
	wellFormed := s.validHeader && !s.tooShort && (len(s.rest) == 0 || (s.net == 1 && inWhitelist(s.rest)))
	if acc {
		if d[0]>>4 == 8 {
			v("byron-bech32-accepted", "a Byron address inside bech32 text was accepted: "+rp.Text)
			return
		}
		if strings.ToLower(h) != specHrp(s.ty, s.net) {
			v(fmt.Sprintf("bech32-prefix-mismatch-accepted:%s-type%d-net%d", strings.ToLower(h), s.ty, s.net),
				fmt.Sprintf("NewAddress accepted %s: prefix %q, but the address inside is type %d network %d (prefix %q)", rp.Text, h, s.ty, s.net, specHrp(s.ty, s.net)))
		}
		if !wellFormed {
			v("malformed-address-in-text-accepted", "NewAddress accepted text carrying a malformed address: "+rp.Text)
		}
		if ob, _ := got.Bytes(); s.minimal && !bytes.Equal(ob, d) {
			v("text-decode-lossy", fmt.Sprintf("NewAddress(%s).Bytes()=%x, the text carries %x", rp.Text, ob, d))
		}
		// text -> address -> text must give back the (lower-cased) text
		if p, _ := vh.Recover(func() {
			if str := got.String(); s.minimal && wellFormed && str != strings.ToLower(rp.Text) {
				v(fmt.Sprintf("text-roundtrip-lossy-string:type%d", s.ty), fmt.Sprintf("NewAddress(%s).String() = %s", rp.Text, str))
			}
		}); p {
			v("address-panic", "String() panicked on the address parsed from "+rp.Text)
		}
		return
	}
	if wellFormed && d[0]>>4 != 8 && strings.ToLower(h) == specHrp(s.ty, s.net) {
		v(fmt.Sprintf("valid-text-rejected:type%d", s.ty), "NewAddress rejected a valid bech32 address "+rp.Text)
	}
}

func monitorNonBech32(c *vh.Ctx, text string, acc bool, rp replay) {
	// not valid bech32 (bad checksum / mixed case): must not be accepted as a
	// Shelley-family address through another route
	if !acc {
		return
	}
	l := strings.ToLower(text)
	for _, p := range []string{"addr1", "addr_test1", "stake1", "stake_test1"} {
		if strings.HasPrefix(l, p) {
			c.Res.Violate("monitor", "bad-bech32-accepted", "NewAddress accepted text with a Shelley prefix that is not valid bech32: "+text, rp)
			return
		}
	}
}
