// C31 - the script data hash binds redeemers, datums and cost models.
package main

import (
	"bytes"
	"encoding/hex"
	"encoding/json"
	"errors"
	"fmt"
	"os"
	"reflect"
	"runtime"
	"sort"
	"strings"

	"github.com/blinklabs-io/gouroboros/cbor"
	"github.com/blinklabs-io/gouroboros/ledger"
	"github.com/blinklabs-io/gouroboros/ledger/alonzo"
	"github.com/blinklabs-io/gouroboros/ledger/babbage"
	"github.com/blinklabs-io/gouroboros/ledger/common"
	"github.com/blinklabs-io/gouroboros/ledger/conway"
	"github.com/blinklabs-io/gouroboros/ledger/dijkstra"
	"golang.org/x/crypto/blake2b"

	"verifharness/vh"
)

const header = `From Coq Require Import String.
From V Require Import Lib.Base Lib.Hex C31.Model.
Open Scope string_scope.`

// ---------------------------------------------------------------------------
// independent oracle: language views per the Alonzo ledger specification
// (alonzo.cddl `language_views`, "canonical CBOR map, keys sorted
// length-first"), written with vh.Item only.

func costList(cm []int64, indef bool) *vh.Item {
	xs := make([]*vh.Item, len(cm))
	for i, v := range cm {
		xs[i] = vh.I64(v)
	}
	it := vh.A(xs...)
	if indef {
		it.F = vh.Findef
	}
	return it
}

// specLangViews returns nil when a used language has no cost model or is not
// one of PlutusV1..V4.
func specLangViews(used []uint, cms map[uint][]int64) []byte {
	type kv struct{ k, v *vh.Item }
	var kvs []kv
	seen := map[uint]bool{}
	for _, v := range used {
		if seen[v] {
			continue
		}
		seen[v] = true
		cm, ok := cms[v]
		if !ok || v > 3 {
			return nil
		}
		if v == 0 {
			// { h'00' : bytes .cbor [_ int*] }  (both key and value serialised twice)
			kvs = append(kvs, kv{vh.B(vh.U(0).Enc()), vh.B(costList(cm, true).Enc())})
		} else {
			kvs = append(kvs, kv{vh.U(uint64(v)), costList(cm, false)})
		}
	}
	sort.Slice(kvs, func(i, j int) bool {
		a, b := kvs[i].k.Enc(), kvs[j].k.Enc()
		if len(a) != len(b) {
			return len(a) < len(b)
		}
		return bytes.Compare(a, b) < 0
	})
	var flat []*vh.Item
	for _, e := range kvs {
		flat = append(flat, e.k, e.v)
	}
	return vh.M(flat...).Enc()
}

func b256(b []byte) []byte { h := blake2b.Sum256(b); return h[:] }

// ---------------------------------------------------------------------------
// Coq printers

func coqCms(cms map[uint][]int64) string {
	var ks []int
	for k := range cms {
		ks = append(ks, int(k))
	}
	sort.Ints(ks)
	var out []string
	for _, k := range ks {
		var vs []string
		for _, v := range cms[uint(k)] {
			vs = append(vs, vh.Z(v))
		}
		out = append(out, vh.Pair(vh.N(uint64(k)), vh.List(vs)))
	}
	return vh.List(out)
}

func coqUsed(used []uint) string {
	var out []string
	for _, v := range used {
		out = append(out, vh.N(uint64(v)))
	}
	return vh.List(out)
}

// ---------------------------------------------------------------------------
// replayable case descriptions

type rcase struct {
	Kind     string             `json:"kind"` // lang | lex | rule
	Used     []uint             `json:"used,omitempty"`
	Cms      map[string][]int64 `json:"cost_models,omitempty"`
	NilEmpty bool               `json:"nil_for_empty,omitempty"`
	PrevTx   string             `json:"decoded_before_into_same_value,omitempty"`
	Steps    []hstep            `json:"steps,omitempty"` // kind=hist: the whole history up to the reported validation
	RepV     uint               `json:"rep_version,omitempty"`
	RepN     int                `json:"rep_len,omitempty"`
	RepZ     int64              `json:"rep_value,omitempty"`
	A        string             `json:"a,omitempty"`
	B        string             `json:"b,omitempty"`
	Era      uint               `json:"era,omitempty"`
	Tx       string             `json:"tx,omitempty"`
	Utxos    map[string]string  `json:"utxos,omitempty"` // "txid#ix" -> output cbor ("" = unresolvable is simply absent)
}

func cmsJSON(cms map[uint][]int64) map[string][]int64 {
	out := map[string][]int64{}
	for k, v := range cms {
		if v == nil {
			v = []int64{}
		}
		out[fmt.Sprint(k)] = v
	}
	return out
}

func cmsFromJSON(m map[string][]int64, nilEmpty bool) map[uint][]int64 {
	out := map[uint][]int64{}
	for k, v := range m {
		var u uint
		fmt.Sscan(k, &u)
		if len(v) == 0 && nilEmpty {
			v = nil
		}
		out[u] = v
	}
	return out
}

// ---------------------------------------------------------------------------
// EncodeLangViews on its own

func runLang(c *vh.Ctx, cf *vh.CaseFile, used []uint, cms map[uint][]int64, nilEmpty bool, class string) {
	rc := rcase{Kind: "lang", Used: used, Cms: cmsJSON(cms), NilEmpty: nilEmpty}
	um := map[uint]struct{}{}
	for _, v := range used {
		um[v] = struct{}{}
	}
	c.Begin(rc)
	got, err := common.EncodeLangViews(um, cms)
	// determinism: Go map iteration order must not matter
	for i := 0; i < 3; i++ {
		again, err2 := common.EncodeLangViews(um, cms)
		if (err == nil) != (err2 == nil) || !bytes.Equal(got, again) {
			c.Res.Violate("monitor", "langviews-not-deterministic", fmt.Sprintf("two calls gave %x and %x", got, again), rc)
		}
	}
	want := specLangViews(used, cms)
	nontrivial := len(um) >= 2 || (len(um) == 1 && len(cms[used[0]]) > 0)
	c.Res.Count(fmt.Sprint(used, cms), nontrivial, class)
	key := ""
	switch {
	case want == nil && err == nil:
		key = "langviews-error-expected"
	case want != nil && err != nil:
		key = "langviews-spurious-error"
	case want != nil && !bytes.Equal(got, want):
		key = "langviews-encoding:" + diffClass(used, cms, got, want)
	}
	if key != "" {
		c.Res.Violate("monitor", key, fmt.Sprintf("EncodeLangViews(%v) = %x err=%v, specification gives %x", used, got, err, want), rc)
	}
	if nontrivial {
		c.Res.Sample(map[string]any{"used": used, "lens": lens(cms), "out": hex.EncodeToString(got)})
	}
	cf.Add(fmt.Sprintf("CLang %s %s %s", coqUsed(used), coqCms(cms), vh.Opt(vh.Bytes(got), err == nil)), rc)
}

// runLangRep: the cost model of language v is n copies of the one-byte
// integer z (n may be far beyond what a literal could carry); the other
// languages take their (short) models from cms.
func runLangRep(c *vh.Ctx, cf *vh.CaseFile, used []uint, cms map[uint][]int64, v uint, n int, z int64, class string) {
	rc := rcase{Kind: "langrep", Used: used, Cms: cmsJSON(cms), RepV: v, RepN: n, RepZ: z}
	full := map[uint][]int64{}
	for k, m := range cms {
		full[k] = m
	}
	big := make([]int64, n)
	for i := range big {
		big[i] = z
	}
	full[v] = big
	um := map[uint]struct{}{}
	for _, u := range used {
		um[u] = struct{}{}
	}
	c.Begin(rc)
	got, err := common.EncodeLangViews(um, full)
	want := specLangViews(used, full)
	c.Res.Count(fmt.Sprint("rep", used, cms, v, n, z), true, class)
	c.Res.Distribution[fmt.Sprintf("cost-model-length/v%d/%d", v+1, n)]++
	key := ""
	switch {
	case want == nil && err == nil:
		key = "langviews-error-expected"
	case want != nil && err != nil:
		key = "langviews-spurious-error"
	case want != nil && !bytes.Equal(got, want):
		key = fmt.Sprintf("langviews-encoding:v%d-cost-model-length-%s", v+1, lenClass(n))
	}
	if key != "" {
		d := 0
		for d < len(got) && d < len(want) && got[d] == want[d] {
			d++
		}
		hi := func(b []byte) []byte {
			if d+12 < len(b) {
				return b[:d+12]
			}
			return b
		}
		c.Res.Violate("monitor", key, fmt.Sprintf("EncodeLangViews(%v), PlutusV%d cost model of %d entries: output (%d bytes) differs from the specified encoding (%d bytes) at byte %d: got %x.., want %x..", used, v+1, n, len(got), len(want), d, hi(got), hi(want)), rc)
	}
	// observed output as pre ++ k x b ++ suf
	zb := byte(z)
	if z < 0 {
		zb = 0x20 | byte(-1-z)
	}
	pre, k, suf := got, 0, []byte{}
	if n > 0 {
		run := 0
		for i := 0; i < len(got); i++ {
			if got[i] == zb {
				run++
				if run == n {
					start := i + 1 - n
					pre, k, suf = got[:start], n, got[i+1:]
					break
				}
			} else {
				run = 0
			}
		}
	}
	obs := "None"
	if err == nil {
		obs = fmt.Sprintf("(Some (%s, %s, %s, %s))", vh.Bytes(pre), vh.N(uint64(zb)), vh.N(uint64(k)), vh.Bytes(suf))
	}
	cf.Add(fmt.Sprintf("CLangRep %s %s %s %s %s %s", coqUsed(used), coqCms(cms), vh.N(uint64(v)), vh.N(uint64(n)), vh.Z(z), obs), rc)
}

func lenClass(n int) string {
	switch {
	case n < 24:
		return "0..23"
	case n < 256:
		return "24..255"
	case n < 65536:
		return "256..65535"
	}
	return ">=65536"
}

func lens(cms map[uint][]int64) map[string]int {
	out := map[string]int{}
	for k, v := range cms {
		out[fmt.Sprint(k)] = len(v)
	}
	return out
}

// diffClass names which part of the encoding is off, so that different
// defects get different keys.
func diffClass(used []uint, cms map[uint][]int64, got, want []byte) string {
	for _, v := range used {
		if m, ok := cms[v]; ok && m == nil && v != 0 {
			return "nil-cost-model"
		}
	}
	if len(got) == len(want) {
		a, b := append([]byte(nil), got...), append([]byte(nil), want...)
		sort.Slice(a, func(i, j int) bool { return a[i] < a[j] })
		sort.Slice(b, func(i, j int) bool { return b[i] < b[j] })
		if bytes.Equal(a, b) {
			return "key-order"
		}
		return "same-length"
	}
	has := func(v uint) bool {
		for _, u := range used {
			if u == v {
				return true
			}
		}
		return false
	}
	if has(0) {
		return "with-v1"
	}
	return "v2plus"
}

func runLex(c *vh.Ctx, cf *vh.CaseFile, a, b []byte) {
	rc := rcase{Kind: "lex", A: hex.EncodeToString(a), B: hex.EncodeToString(b)}
	got := common.ShortLex(a, b)
	want := 0
	switch {
	case len(a) < len(b):
		want = -1
	case len(a) > len(b):
		want = 1
	default:
		want = bytes.Compare(a, b)
	}
	c.Res.Count("lex"+rc.A+"/"+rc.B, len(a) != len(b) && bytes.Compare(a, b) != want, "shortlex")
	if got != want {
		c.Res.Violate("monitor", "shortlex-order", fmt.Sprintf("ShortLex(%x,%x)=%d, length-then-lexicographic order gives %d", a, b, got, want), rc)
	}
	cf.Add(fmt.Sprintf("CLex %s %s %s", vh.Bytes(a), vh.Bytes(b), vh.Z(int64(got))), rc)
}

// ---------------------------------------------------------------------------
// transactions

type eraT struct {
	id    uint
	name  string
	rules []common.UtxoValidationRuleFunc
	pp    func(map[uint][]int64) common.ProtocolParameters
}

var eras = []eraT{
	{alonzo.TxTypeAlonzo, "alonzo", alonzo.UtxoValidationRules, func(m map[uint][]int64) common.ProtocolParameters {
		return &alonzo.AlonzoProtocolParameters{CostModels: m}
	}},
	{babbage.TxTypeBabbage, "babbage", babbage.UtxoValidationRules, func(m map[uint][]int64) common.ProtocolParameters {
		return &babbage.BabbageProtocolParameters{CostModels: m}
	}},
	{conway.TxTypeConway, "conway", conway.UtxoValidationRules, func(m map[uint][]int64) common.ProtocolParameters {
		return &conway.ConwayProtocolParameters{CostModels: m}
	}},
	{dijkstra.TxTypeDijkstra, "dijkstra", dijkstra.UtxoValidationRules, func(m map[uint][]int64) common.ProtocolParameters {
		p := &dijkstra.DijkstraProtocolParameters{}
		p.CostModels = m
		return p
	}},
}

func eraByID(id uint) *eraT {
	for i := range eras {
		if eras[i].id == id {
			return &eras[i]
		}
	}
	return nil
}

func ruleName(f common.UtxoValidationRuleFunc) string {
	n := runtime.FuncForPC(reflect.ValueOf(f).Pointer()).Name()
	if i := strings.LastIndex(n, "."); i >= 0 {
		n = n[i+1:]
	}
	return n
}

func findRule(rules []common.UtxoValidationRuleFunc, name string) common.UtxoValidationRuleFunc {
	for _, f := range rules {
		if ruleName(f) == name {
			return f
		}
	}
	return nil
}

func gen(out string) error {
	var sb strings.Builder
	sb.WriteString("(* GENERATED by harness/cmd/c31 gen from the ledger/<era> packages - do not edit *)\n")
	sb.WriteString("From Coq Require Import String.\nFrom V Require Import Lib.Base.\nLocal Open Scope string_scope.\nLocal Open Scope N_scope.\n\n")
	sb.WriteString("(* (tx type, era name, names of UtxoValidationRules in order) *)\n")
	sb.WriteString("Definition era_table : list (N * string * list string) := [\n")
	for i, e := range eras {
		var names []string
		for _, f := range e.rules {
			names = append(names, vh.Str(ruleName(f)))
		}
		sep := ";"
		if i == len(eras)-1 {
			sep = ""
		}
		fmt.Fprintf(&sb, "  (%d, %s,\n   %s)%s\n", e.id, vh.Str(e.name), vh.List(names), sep)
	}
	sb.WriteString("].\n")
	if out == "" {
		fmt.Print(sb.String())
		return nil
	}
	return vh.WriteIfChanged(out, sb.String())
}

type mockLS struct {
	common.LedgerState
	utxos map[string]common.Utxo
}

func inKey(in common.TransactionInput) string {
	return fmt.Sprintf("%s#%d", in.Id().String(), in.Index())
}

func (m mockLS) UtxoById(in common.TransactionInput) (common.Utxo, error) {
	u, ok := m.utxos[inKey(in)]
	if !ok {
		return common.Utxo{}, errors.New("utxo not found")
	}
	return u, nil
}

func addr(r *vh.Rng) *vh.Item { return vh.B(append([]byte{0x61}, r.Bytes(28)...)) }

// refOutput: a Babbage-style output, optionally with a reference script of
// the given kind (0 native, 1..4 PlutusV1..V4; -1 none)
func refOutput(r *vh.Rng, kind int) []byte {
	kvs := []*vh.Item{vh.U(0), addr(r), vh.U(1), vh.U(uint64(1000000 + r.Intn(1000000)))}
	if kind >= 0 {
		var script *vh.Item
		if kind == 0 {
			script = vh.A(vh.U(0), vh.B(r.Bytes(28))) // native: sig keyhash
		} else {
			script = vh.B(r.Bytes(4 + r.Intn(8)))
		}
		kvs = append(kvs, vh.U(3), vh.TagOf(24, vh.B(vh.A(vh.U(uint64(kind)), script).Enc())))
	}
	return vh.M(kvs...).Enc()
}

func plutusData(r *vh.Rng, depth int) *vh.Item {
	switch r.Intn(4) {
	case 0:
		return vh.U(r.Boundary() >> uint(r.Intn(40)))
	case 1:
		return vh.B(r.Bytes(r.Intn(12)))
	case 2:
		if depth > 0 {
			return vh.TagOf(121+uint64(r.Intn(3)), vh.A(plutusData(r, depth-1)))
		}
	}
	return vh.NI(uint64(r.Intn(1000)))
}

type txSpec struct {
	era         *eraT
	redForm     int // 0 absent, 1 list, 2 map
	nRed        int
	datForm     int // 0 absent, 1 array, 2 tag-258 array
	nDat        int
	v1, v2, v3  bool
	refKinds    []int // per reference input: -2 unresolvable, -1 no script, 0 native, 1..4 plutus
	inKinds     []int // per regular input, same coding
	reform      bool
	hashMode    int // 0 correct, 1 absent, 2 stale (random), 3 stale (one piece changed), 4 correct but for other cost models
	cms         map[uint][]int64
	dropCM      int // -1 none; else delete this version from the parameters after computing the hash
}

type builtTx struct {
	raw      []byte
	utxos    map[string]string
	redRaw   []byte
	datRaw   []byte
	declared []byte
}

func scriptList(r *vh.Rng, tagged bool) *vh.Item {
	var xs []*vh.Item
	for i := 1 + r.Intn(2); i > 0; i-- {
		xs = append(xs, vh.B(r.Bytes(3+r.Intn(6))))
	}
	if tagged {
		return vh.TagOf(258, vh.A(xs...))
	}
	return vh.A(xs...)
}

// usedByOracle: the languages the rule must hash, from the property's point
// of view = those of the scripts present (witness set) or referenced
// (resolved reference scripts the era knows).
func usedByOracle(s *txSpec) []uint {
	set := map[uint]bool{}
	if s.v1 {
		set[0] = true
	}
	if s.v2 && s.era.id >= babbage.TxTypeBabbage {
		set[1] = true
	}
	if s.v3 && s.era.id >= conway.TxTypeConway {
		set[2] = true
	}
	if s.era.id >= babbage.TxTypeBabbage {
		maxKind := 2
		if s.era.id >= conway.TxTypeConway {
			maxKind = 4
		}
		for _, k := range append(append([]int{}, s.refKinds...), s.inKinds...) {
			if k >= 1 && k <= maxKind {
				set[uint(k-1)] = true
			}
		}
	}
	var out []uint
	for v := range set {
		out = append(out, v)
	}
	sort.Slice(out, func(i, j int) bool { return out[i] < out[j] })
	return out
}

func build(r *vh.Rng, s *txSpec) *builtTx {
	bt := &builtTx{utxos: map[string]string{}}
	conwayLike := s.era.id >= conway.TxTypeConway
	// witness set
	var wkv []*vh.Item
	if r.Bool() {
		wkv = append(wkv, vh.U(0), vh.A(vh.A(vh.B(r.Bytes(32)), vh.B(r.Bytes(64)))))
	}
	if s.v1 {
		wkv = append(wkv, vh.U(3), scriptList(r, conwayLike && r.Bool()))
	}
	var datIt, redIt *vh.Item
	if s.datForm != 0 {
		var xs []*vh.Item
		for i := 0; i < s.nDat; i++ {
			xs = append(xs, vh.U(uint64(1000*i+r.Intn(1000)))) // distinct
		}
		if s.nDat > 0 && r.Bool() {
			xs[0] = plutusData(r, 2)
		}
		datIt = vh.A(xs...)
		if s.reform {
			datIt = vh.Reform(r, datIt, vh.ReformOpts{Ints: true, Containers: true, Indef: true, Prob: 50})
		}
		if s.datForm == 2 {
			datIt = vh.TagOf(258, datIt)
		}
		wkv = append(wkv, vh.U(4), datIt)
	}
	if s.redForm != 0 {
		var xs []*vh.Item
		for i := 0; i < s.nRed; i++ {
			key := []*vh.Item{vh.U(uint64(i % 4)), vh.U(uint64(i))}
			val := []*vh.Item{plutusData(r, 1), vh.A(vh.U(uint64(r.Intn(1e6))), vh.U(uint64(r.Intn(1e9))))}
			if s.redForm == 1 {
				xs = append(xs, vh.A(append(key, val...)...))
			} else {
				xs = append(xs, vh.A(key...), vh.A(val...))
			}
		}
		if s.redForm == 1 {
			redIt = vh.A(xs...)
		} else {
			redIt = vh.M(xs...)
		}
		if s.reform {
			redIt = vh.Reform(r, redIt, vh.ReformOpts{Ints: true, Containers: true, Indef: true, Prob: 40})
		}
		wkv = append(wkv, vh.U(5), redIt)
	}
	if s.v2 && s.era.id >= babbage.TxTypeBabbage {
		wkv = append(wkv, vh.U(6), scriptList(r, conwayLike && r.Bool()))
	}
	if s.v3 && conwayLike {
		wkv = append(wkv, vh.U(7), scriptList(r, r.Bool()))
	}
	wits := vh.M(wkv...)
	if datIt != nil {
		bt.datRaw = datIt.Enc()
	}
	if redIt != nil {
		bt.redRaw = redIt.Enc()
	}

	// inputs / reference inputs and the UTxO they resolve to
	mkIn := func(kind int) *vh.Item {
		id := r.Bytes(32)
		ix := uint64(r.Intn(3))
		if kind != -2 {
			bt.utxos[fmt.Sprintf("%x#%d", id, ix)] = hex.EncodeToString(refOutput(r, kind))
		}
		return vh.A(vh.B(id), vh.U(ix))
	}
	var ins, refs []*vh.Item
	for _, k := range s.inKinds {
		ins = append(ins, mkIn(k))
	}
	for _, k := range s.refKinds {
		refs = append(refs, mkIn(k))
	}

	// the declared hash
	redBytes := bt.redRaw
	if len(redBytes) == 0 {
		if conwayLike {
			redBytes = []byte{0xa0}
		} else {
			redBytes = []byte{0x80}
		}
	}
	var datBytes []byte
	if s.nDat > 0 && s.datForm != 0 {
		datBytes = bt.datRaw
	}
	lv := specLangViews(usedByOracle(s), s.cms)
	pre := append(append(append([]byte{}, redBytes...), datBytes...), lv...)
	switch s.hashMode {
	case 0:
		bt.declared = b256(pre)
	case 2:
		bt.declared = r.Bytes(32)
	case 3: // stale: one of the three pieces is not the one in the transaction
		switch r.Intn(3) {
		case 0:
			bt.declared = b256(append(append(append([]byte{}, redBytes...), 0x80), lv...)) // datums swapped for an empty list
		case 1:
			bt.declared = b256(append(append([]byte{}, redBytes...), datBytes...)) // language views dropped
		default:
			x := append([]byte{}, pre...)
			x[r.Intn(len(x))] ^= 1 << uint(r.Intn(8))
			bt.declared = b256(x)
		}
	case 4: // hash of the same data under different cost models
		other := map[uint][]int64{}
		for k, v := range s.cms {
			vv := append([]int64{}, v...)
			if len(vv) > 0 {
				vv[r.Intn(len(vv))]++
			} else {
				vv = append(vv, 0)
			}
			other[k] = vv
		}
		lv2 := specLangViews(usedByOracle(s), other)
		bt.declared = b256(append(append(append([]byte{}, redBytes...), datBytes...), lv2...))
	}
	bkv := []*vh.Item{vh.U(0), vh.A(ins...), vh.U(1), vh.A(vh.A(addr(r), vh.U(2000000))), vh.U(2), vh.U(200000)}
	if bt.declared != nil {
		bkv = append(bkv, vh.U(11), vh.B(bt.declared))
	}
	if len(refs) > 0 && s.era.id >= babbage.TxTypeBabbage {
		bkv = append(bkv, vh.U(18), vh.A(refs...))
	}
	env := []*vh.Item{vh.M(bkv...), wits, vh.BoolItem(true), vh.Null()}
	if s.era.id == dijkstra.TxTypeDijkstra && r.Bool() {
		env = []*vh.Item{env[0], env[1], env[3]}
	}
	bt.raw = vh.A(env...).Enc()
	return bt
}

func classOf(err error) (int, []byte) {
	if err == nil {
		return 0, nil
	}
	var e1 common.ExtraneousScriptDataHashError
	var e2 common.MissingScriptDataHashError
	var e3 common.MissingCostModelError
	var e4 common.ScriptDataHashMismatchError
	var e5 common.ReferenceInputResolutionError
	switch {
	case errors.As(err, &e1):
		return 1, nil
	case errors.As(err, &e2):
		return 2, nil
	case errors.As(err, &e3):
		return 3, nil
	case errors.As(err, &e4):
		return 4, e4.Computed[:]
	case errors.As(err, &e5):
		return 5, nil
	}
	return 6, nil
}

func optKind(k int, ok bool) string {
	if !ok {
		return "None"
	}
	if k < 0 {
		return "(Some None)"
	}
	if k == 0 {
		return "(Some (Some 9%N))"
	}
	return fmt.Sprintf("(Some (Some %d%%N))", k-1)
}

// runRule decodes raw, resolves inputs against utxos and runs the era's
// UtxoValidateScriptDataHash (taken from its UtxoValidationRules).
func runRule(c *vh.Ctx, cf *vh.CaseFile, e *eraT, raw []byte, utxoHex map[string]string, cms map[uint][]int64, nilEmpty bool, class string) bool {
	rc := rcase{Kind: "rule", Era: e.id, Tx: hex.EncodeToString(raw), Utxos: utxoHex, Cms: cmsJSON(cms), NilEmpty: nilEmpty}
	if rcOverride != nil {
		rc = *rcOverride
	}
	c.Begin(rc)
	if dirtyPrev != nil && rcOverride == nil {
		rc.PrevTx = hex.EncodeToString(dirtyPrev)
	}
	tx, err := decodeTx(e, raw, dirtyPrev)
	if err != nil {
		if dirtyPrev != nil {
			if _, ferr := ledger.NewTransactionFromCbor(e.id, raw); ferr == nil {
				c.Res.Violate("monitor", "dirty-receiver/decode-differs:"+e.name, "decoding into a value that already holds a transaction fails ("+err.Error()+"), a fresh value decodes", rc)
			}
		}
		c.Res.Count("", false, "decoder-rejected/"+e.name)
		return false
	}
	ls := mockLS{utxos: map[string]common.Utxo{}}
	kinds := map[string]int{}
	for k, h := range utxoHex {
		out, err := babbage.NewBabbageTransactionOutputFromCbor(vh.UnHex(h))
		if err != nil {
			c.Res.Count("", false, "ref-output-rejected")
			return false
		}
		ls.utxos[k] = common.Utxo{Output: out}
		kind := -1
		if sr := out.ScriptRef(); sr != nil {
			kind = 0
			if v, ok := common.PlutusScriptVersion(sr); ok {
				kind = int(v) + 1
			}
		}
		kinds[k] = kind
	}
	rule := findRule(e.rules, "UtxoValidateScriptDataHash")
	if rule == nil {
		c.Res.Violate("monitor", keyPrefix+"rule-missing-from-list:"+e.name, "UtxoValidationRules no longer contains UtxoValidateScriptDataHash", rc)
		return true
	}
	nilCM = nilEmpty
	var pp common.ProtocolParameters = ppOverride
	if pp == nil {
		pp = e.pp(cms)
	}
	rerr := rule(tx, 0, ls, pp)
	gotClass, gotComputed := classOf(rerr)

	// ---- the transaction as the property sees it (independent walk) --------
	top, _, perr := vh.ParseItem(raw)
	if perr != nil || top.K != vh.KArr || len(top.Xs) < 2 || top.Xs[0].K != vh.KMap || top.Xs[1].K != vh.KMap {
		return false
	}
	find := func(m *vh.Item, key uint64) *vh.Item {
		for i := 0; i+1 < len(m.Xs); i += 2 {
			if m.Xs[i].K == vh.KUInt && m.Xs[i].N == key {
				return m.Xs[i+1]
			}
		}
		return nil
	}
	count := func(it *vh.Item) int {
		if it == nil {
			return 0
		}
		if it.K == vh.KTag {
			it = it.Xs[0]
		}
		if it.K == vh.KMap {
			return len(it.Xs) / 2
		}
		return len(it.Xs)
	}
	body, wits := top.Xs[0], top.Xs[1]
	redIt, datIt := find(wits, 5), find(wits, 4)
	nRed, nDat := count(redIt), count(datIt)
	var redRaw, datRaw, declared []byte
	if redIt != nil {
		redRaw = redIt.Enc()
	}
	if datIt != nil {
		datRaw = datIt.Enc()
	}
	if d := find(body, 11); d != nil {
		declared = d.Bs
	}
	conwayLike := e.id >= conway.TxTypeConway
	hasV := func(key uint64, from uint) bool { return e.id >= from && count(find(wits, key)) > 0 }
	v1, v2, v3 := hasV(3, alonzo.TxTypeAlonzo), hasV(6, babbage.TxTypeBabbage), hasV(7, conway.TxTypeConway)
	type res struct {
		kind int
		ok   bool
	}
	resolve := func(list *vh.Item) []res {
		var out []res
		if list == nil {
			return nil
		}
		l := list
		if l.K == vh.KTag {
			l = l.Xs[0]
		}
		for _, in := range l.Xs {
			k := fmt.Sprintf("%x#%d", in.Xs[0].Bs, in.Xs[1].N)
			kind, ok := kinds[k]
			out = append(out, res{kind, ok})
		}
		return out
	}
	insR := resolve(find(body, 0))
	var refsR []res
	if e.id >= babbage.TxTypeBabbage {
		refsR = resolve(find(body, 18))
	}
	usedSet := map[uint]bool{}
	if v1 {
		usedSet[0] = true
	}
	if v2 {
		usedSet[1] = true
	}
	if v3 {
		usedSet[2] = true
	}
	unresolvedRef := false
	if e.id >= babbage.TxTypeBabbage {
		maxKind := 2
		if conwayLike {
			maxKind = 4
		}
		for _, x := range refsR {
			if !x.ok {
				unresolvedRef = true
			}
		}
		for _, x := range append(append([]res{}, refsR...), insR...) {
			if x.ok && x.kind >= 1 && x.kind <= maxKind {
				usedSet[uint(x.kind-1)] = true
			}
		}
	}
	var used []uint
	for v := range usedSet {
		used = append(used, v)
	}
	sort.Slice(used, func(i, j int) bool { return used[i] < used[j] })

	// ---- monitor: the property statement ------------------------------------
	required := nRed > 0 || nDat > 0
	redBytes := redRaw
	if len(redBytes) == 0 {
		redBytes = []byte{0x80}
		if conwayLike {
			redBytes = []byte{0xa0}
		}
	}
	var datBytes []byte
	if nDat > 0 {
		datBytes = datRaw
	}
	lv := specLangViews(used, cms)
	var expect []byte
	if lv != nil {
		expect = b256(append(append(append([]byte{}, redBytes...), datBytes...), lv...))
	}
	hclass := "absent"
	if declared != nil {
		hclass = "stale"
		if expect != nil && bytes.Equal(declared, expect) {
			hclass = "correct"
		}
	}
	shape := fmt.Sprintf("%s/red=%s/dat=%s/hash=%s", e.name, cnt(redIt, nRed), cnt(datIt, nDat), hclass)
	c.Res.Count(rc.Tx+fmt.Sprint(cms), required || declared != nil, class)
	c.Res.Distribution["shape/"+shape]++
	c.Res.Distribution[fmt.Sprintf("languages/%s/%v", e.name, used)]++
	accepted := gotClass == 0
	switch {
	case unresolvedRef:
		// outside the property: the rule cannot know the languages; any rejection is fine
		if accepted && required {
			c.Res.Violate("monitor", keyPrefix+"accepted-with-unresolved-reference-input:"+e.name, "rule accepted although a reference input could not be resolved", rc)
		}
	case !required && declared != nil && accepted:
		c.Res.Violate("monitor", keyPrefix+"extraneous-hash-accepted:"+e.name, "a declared script data hash without redeemers or datums was accepted", rc)
	case !required && declared == nil && !accepted:
		c.Res.Violate("monitor", keyPrefix+"plain-tx-rejected:"+e.name, fmt.Sprintf("no redeemers, datums or hash, yet the rule failed: %v", rerr), rc)
	case required && declared == nil && accepted:
		c.Res.Violate("monitor", keyPrefix+"missing-hash-accepted:"+e.name, "redeemers or datums present, no declared hash, accepted", rc)
	case required && declared != nil && accepted && hclass != "correct":
		c.Res.Violate("monitor", keyPrefix+"wrong-hash-accepted:"+shapeKey(e, redIt, nRed, datIt, nDat, used),
			fmt.Sprintf("declared %x accepted, Blake2b-256(redeemers|datums|language views) = %x", declared, expect), rc)
	case required && hclass == "correct" && !accepted:
		c.Res.Violate("monitor", keyPrefix+"correct-hash-rejected:"+shapeKey(e, redIt, nRed, datIt, nDat, used),
			fmt.Sprintf("declared hash equals the specified one (%x) but the rule failed: %v", expect, rerr), rc)
	}
	if required || declared != nil {
		c.Res.Sample(map[string]any{"era": e.name, "shape": shape, "languages": used, "result": gotClass})
	}

	// ---- correspondence ------------------------------------------------------
	var lsR, lsI []string
	for _, x := range refsR {
		lsR = append(lsR, optKind(x.kind, x.ok))
	}
	for _, x := range insR {
		lsI = append(lsI, optKind(x.kind, x.ok))
	}
	// hash table: the oracle's preimage and the plausible wrong ones
	cands := [][]byte{}
	if lv != nil {
		cands = append(cands,
			append(append(append([]byte{}, redBytes...), datBytes...), lv...),
			append(append(append([]byte{}, redBytes...), datRaw...), lv...),
			append(append([]byte{}, redBytes...), lv...))
	}
	var tbl []string
	seen := map[string]bool{}
	for _, p := range cands {
		if !seen[string(p)] {
			seen[string(p)] = true
			tbl = append(tbl, vh.Pair(vh.Bytes(p), vh.Bytes(b256(p))))
		}
	}
	tv := fmt.Sprintf("{| era := %s; red_count := %s; red_raw := %s; dat_count := %s; dat_raw := %s; wit_v1 := %s; wit_v2 := %s; wit_v3 := %s; wit_v4 := false; ref_inputs := %s; inputs := %s; declared := %s |}",
		vh.N(uint64(e.id)), vh.N(uint64(nRed)), vh.Bytes(redRaw), vh.N(uint64(nDat)), vh.Bytes(datRaw), vh.Bool(v1), vh.Bool(v2), vh.Bool(v3),
		vh.List(lsR), vh.List(lsI), vh.Opt(vh.Bytes(declared), declared != nil))
	cf.Add(fmt.Sprintf("CRule %s %s %s %s %s", tv, coqCms(cms), vh.List(tbl), vh.N(uint64(gotClass)), vh.Opt(vh.Bytes(gotComputed), gotComputed != nil)), rc)
	return true
}

func cnt(it *vh.Item, n int) string {
	if it == nil {
		return "absent"
	}
	k := "list"
	if it.K == vh.KMap {
		k = "map"
	} else if it.K == vh.KTag {
		k = "set"
	}
	if n == 0 {
		return k + "-empty"
	}
	return k
}

var nilCM bool

func shapeKey(e *eraT, redIt *vh.Item, nRed int, datIt *vh.Item, nDat int, used []uint) string {
	if nilCM {
		return "nil-cost-model/" + e.name
	}
	return fmt.Sprintf("%s/red=%s/dat=%s/langs=%v", e.name, cnt(redIt, nRed), cnt(datIt, nDat), used)
}

// ---------------------------------------------------------------------------
// validation histories on long-lived protocol-parameter objects.
// The model is a function of the CURRENT cost models (C31_rule_current_cost_models);
// the implementation is handed the same parameter object again and again while
// its cost models are changed in place, so anything it remembers about an
// earlier call (memoised language views, cached hashes ...) shows up as a
// verdict that differs from the stateless model / the specification.

// dirtyPrev, when set, makes runRule decode that transaction first and the
// case's transaction into the SAME value afterwards (a reused receiver must
// behave like a fresh one: the rule is about the transaction decoded last).
var dirtyPrev []byte

func decodeTx(e *eraT, raw, prev []byte) (common.Transaction, error) {
	if prev == nil {
		return ledger.NewTransactionFromCbor(e.id, raw)
	}
	var v common.Transaction
	switch e.id {
	case alonzo.TxTypeAlonzo:
		v = &alonzo.AlonzoTransaction{}
	case babbage.TxTypeBabbage:
		v = &babbage.BabbageTransaction{}
	case conway.TxTypeConway:
		v = &conway.ConwayTransaction{}
	case dijkstra.TxTypeDijkstra:
		v = &dijkstra.DijkstraTransaction{}
	default:
		return ledger.NewTransactionFromCbor(e.id, raw)
	}
	_, _ = cbor.Decode(prev, v)
	if _, err := cbor.Decode(raw, v); err != nil {
		return nil, err
	}
	return v, nil
}

var lastRaw = map[uint][]byte{}

// runRuleBoth runs a case with a fresh receiver and then once more decoded
// into a value that already holds the previous transaction of the same era.
func runRuleBoth(c *vh.Ctx, cf *vh.CaseFile, e *eraT, raw []byte, utxoHex map[string]string, cms map[uint][]int64, nilEmpty bool, class string) bool {
	ok := runRule(c, cf, e, raw, utxoHex, cms, nilEmpty, class)
	if prev, has := lastRaw[e.id]; ok && has {
		dirtyPrev, keyPrefix = prev, "dirty-receiver/"
		runRule(c, cf, e, raw, utxoHex, cms, nilEmpty, "dirty-receiver/"+class)
		dirtyPrev, keyPrefix = nil, ""
	}
	if ok {
		lastRaw[e.id] = raw
	}
	return ok
}

var (
	ppOverride common.ProtocolParameters
	rcOverride *rcase
	keyPrefix  string
)

type hstep struct {
	Op    string            `json:"op"` // validate | direct | update | genesis
	Obj   int               `json:"obj"`
	V     uint              `json:"version,omitempty"`
	CM    []int64           `json:"cost_model,omitempty"`
	Tx    string            `json:"tx,omitempty"`
	Utxos map[string]string `json:"utxos,omitempty"`
	Class string            `json:"class,omitempty"`
}

// costModelsOf returns the map currently stored in the parameter object.
func costModelsOf(pp common.ProtocolParameters) *map[uint][]int64 {
	switch p := pp.(type) {
	case *alonzo.AlonzoProtocolParameters:
		return &p.CostModels
	case *babbage.BabbageProtocolParameters:
		return &p.CostModels
	case *conway.ConwayProtocolParameters:
		return &p.CostModels
	case *dijkstra.DijkstraProtocolParameters:
		return &p.CostModels
	}
	return nil
}

func snapshot(pp common.ProtocolParameters) map[uint][]int64 {
	out := map[uint][]int64{}
	for k, v := range *costModelsOf(pp) {
		out[k] = append([]int64{}, v...)
	}
	return out
}

// applyUpdate feeds a real protocol-parameter-update payload {18: {v: [...]}}
// (decoded from CBOR into the era's update type) to the era's Update method.
func applyUpdate(pp common.ProtocolParameters, v uint, cm []int64) {
	payload := vh.M(vh.U(18), vh.M(vh.U(uint64(v)), costList(cm, false))).Enc()
	lit := map[uint][]int64{v: append([]int64{}, cm...)}
	switch p := pp.(type) {
	case *alonzo.AlonzoProtocolParameters:
		var u alonzo.AlonzoProtocolParameterUpdate
		if _, err := cbor.Decode(payload, &u); err != nil || u.CostModels == nil {
			u = alonzo.AlonzoProtocolParameterUpdate{CostModels: lit}
		}
		p.Update(&u)
	case *babbage.BabbageProtocolParameters:
		var u babbage.BabbageProtocolParameterUpdate
		if _, err := cbor.Decode(payload, &u); err != nil || u.CostModels == nil {
			u = babbage.BabbageProtocolParameterUpdate{CostModels: lit}
		}
		p.Update(&u)
	case *conway.ConwayProtocolParameters:
		var u conway.ConwayProtocolParameterUpdate
		if _, err := cbor.Decode(payload, &u); err != nil || u.CostModels == nil {
			u = conway.ConwayProtocolParameterUpdate{CostModels: lit}
		}
		p.Update(&u)
	case *dijkstra.DijkstraProtocolParameters:
		var u dijkstra.DijkstraProtocolParameterUpdate
		if _, err := cbor.Decode(payload, &u); err != nil || u.CostModels == nil {
			u = dijkstra.DijkstraProtocolParameterUpdate{CostModels: lit}
		}
		p.Update(&u)
		if !reflect.DeepEqual(p.CostModels[v], lit[v]) {
			// the Dijkstra wrapper validates unrelated fields first; go through the embedded Conway update
			p.ConwayProtocolParameters.Update(&conway.ConwayProtocolParameterUpdate{CostModels: lit})
		}
	}
}

// applyGenesis goes through UpdateFromGenesis where the era has one that
// carries cost models; returns the version it (re)set, or false.
func applyGenesis(pp common.ProtocolParameters, cm []int64) (uint, bool) {
	switch p := pp.(type) {
	case *alonzo.AlonzoProtocolParameters:
		long := append([]int64{}, cm...)
		for len(long) < 166 {
			long = append(long, int64(len(long)))
		}
		keep := snapshot(pp)
		if err := p.UpdateFromGenesis(&alonzo.AlonzoGenesis{CostModels: alonzo.AlonzoGenesisCostModels{"PlutusV1": long}}); err != nil {
			return 0, false
		}
		for k, v := range keep { // the genesis path replaces the whole table; keep the other languages
			if _, ok := p.CostModels[k]; !ok {
				p.CostModels[k] = v
			}
		}
		return 0, true
	case *conway.ConwayProtocolParameters:
		if len(cm) == 0 {
			cm = []int64{1}
		}
		if err := p.UpdateFromGenesis(&conway.ConwayGenesis{PlutusV3CostModel: append([]int64{}, cm...)}); err != nil {
			return 0, false
		}
		return 2, true
	case *dijkstra.DijkstraProtocolParameters:
		if len(cm) == 0 {
			cm = []int64{1}
		}
		if err := p.ConwayProtocolParameters.UpdateFromGenesis(&conway.ConwayGenesis{PlutusV3CostModel: append([]int64{}, cm...)}); err != nil {
			return 0, false
		}
		return 2, true
	}
	return 0, false
}

type history struct {
	c     *vh.Ctx
	cf    *vh.CaseFile
	e     *eraT
	objs  []common.ProtocolParameters
	steps []hstep
	last  string // the last mutation kind applied to any object
}

func newHistory(c *vh.Ctx, cf *vh.CaseFile, e *eraT, init []map[uint][]int64) *history {
	h := &history{c: c, cf: cf, e: e, last: "none"}
	for i, m := range init {
		cp := map[uint][]int64{}
		for k, v := range m {
			cp[k] = append([]int64{}, v...)
			h.steps = append(h.steps, hstep{Op: "direct", Obj: i, V: k, CM: v})
		}
		h.objs = append(h.objs, e.pp(cp))
	}
	return h
}

func (h *history) mutate(op string, obj int, v uint, cm []int64) uint {
	pp := h.objs[obj]
	switch op {
	case "direct":
		m := costModelsOf(pp)
		if *m == nil {
			*m = map[uint][]int64{}
		}
		(*m)[v] = append([]int64{}, cm...)
	case "update":
		applyUpdate(pp, v, cm)
	case "genesis":
		gv, ok := applyGenesis(pp, cm)
		if !ok {
			return h.mutate("direct", obj, v, cm)
		}
		v = gv
	}
	h.steps = append(h.steps, hstep{Op: op, Obj: obj, V: v, CM: cm})
	h.last = op
	if h.c.Res.Distribution == nil {
		h.c.Res.Distribution = map[string]int{}
	}
	h.c.Res.Distribution["history/mutation/"+op+"/"+h.e.name]++
	return v
}

func (h *history) validate(obj int, raw []byte, utxos map[string]string, class string) {
	h.steps = append(h.steps, hstep{Op: "validate", Obj: obj, Tx: hex.EncodeToString(raw), Utxos: utxos, Class: class})
	rc := rcase{Kind: "hist", Era: h.e.id, Steps: append([]hstep{}, h.steps...)}
	ppOverride, rcOverride, keyPrefix = h.objs[obj], &rc, "history-after-"+h.last+"/"
	defer func() { ppOverride, rcOverride, keyPrefix = nil, nil, "" }()
	runRule(h.c, h.cf, h.e, raw, utxos, snapshot(h.objs[obj]), false, class)
}

// replayHistory re-executes a recorded history on fresh objects.
func replayHistory(c *vh.Ctx, cf *vh.CaseFile, e *eraT, steps []hstep) {
	n := 0
	for _, s := range steps {
		if s.Obj >= n {
			n = s.Obj + 1
		}
	}
	init := make([]map[uint][]int64, n)
	h := newHistory(c, cf, e, init)
	h.steps = nil
	for _, s := range steps {
		if s.Op == "validate" {
			h.validate(s.Obj, vh.UnHex(s.Tx), s.Utxos, "replay/"+s.Class)
		} else {
			h.mutate(s.Op, s.Obj, s.V, s.CM)
		}
	}
}

// specFor builds a transaction spec using exactly the language set `langs`
// (witness scripts for V1..V3, a reference script for V4).
func specFor(r *vh.Rng, e *eraT, langs []uint, cms map[uint][]int64, hashMode int) *txSpec {
	s := &txSpec{era: e, dropCM: -1, hashMode: hashMode, redForm: 1, nRed: 1 + r.Intn(2), inKinds: []int{-1}, cms: cms}
	if e.id >= conway.TxTypeConway {
		s.redForm = 2
	}
	if r.Intn(3) == 0 {
		s.datForm, s.nDat = 1, 1
	}
	for _, v := range langs {
		switch v {
		case 0:
			s.v1 = true
		case 1:
			s.v2 = true
		case 2:
			s.v3 = true
		case 3:
			s.refKinds = append(s.refKinds, 4)
		}
	}
	return s
}

func eraLangs(e *eraT) []uint {
	switch {
	case e.id >= conway.TxTypeConway:
		return []uint{0, 1, 2, 3}
	case e.id >= babbage.TxTypeBabbage:
		return []uint{0, 1}
	}
	return []uint{0}
}

func pickLangs(r *vh.Rng, e *eraT) []uint {
	all := eraLangs(e)
	var out []uint
	for _, v := range all {
		if r.Bool() {
			out = append(out, v)
		}
	}
	if len(out) == 0 {
		out = []uint{all[r.Intn(len(all))]}
	}
	return out
}

func smallCM(r *vh.Rng) []int64 {
	cm := make([]int64, 1+r.Intn(6))
	for i := range cm {
		cm[i] = int64(r.Intn(100000)) - 1000
	}
	return cm
}

func runHistories(c *vh.Ctx, cf *vh.CaseFile) {
	r := c.Rng
	for i := range eras {
		e := &eras[i]
		langsAll := eraLangs(e)
		// (a) scripted: for every mutation path and a couple of language sets:
		// validate on both objects, change a used language's cost model on one
		// object, validate old-hash / new-hash on it and the untouched object
		for _, op := range []string{"direct", "update", "genesis"} {
			for rep := 0; rep < c.Pick(2, 6); rep++ {
				init := []map[uint][]int64{{}, {}}
				for _, v := range []uint{0, 1, 2, 3} {
					init[0][v], init[1][v] = smallCM(r), smallCM(r)
				}
				h := newHistory(c, cf, e, init)
				langs := pickLangs(r, e)
				other := pickLangs(r, e)
				var warm *builtTx
				for obj := 0; obj < 2; obj++ {
					bt := build(r, specFor(r, e, langs, snapshot(h.objs[obj]), 0))
					h.validate(obj, bt.raw, bt.utxos, "history/warm-up/"+e.name)
					if obj == 0 {
						warm = bt
					}
				}
				bt := build(r, specFor(r, e, other, snapshot(h.objs[0]), 0))
				h.validate(0, bt.raw, bt.utxos, "history/other-language-set/"+e.name)
				old := snapshot(h.objs[0])
				v := langs[r.Intn(len(langs))]
				if op == "genesis" { // the genesis paths can only set one fixed language
					if e.id >= conway.TxTypeConway {
						v = 2
					} else {
						v = 0
					}
					found := false
					for _, l := range langs {
						found = found || l == v
					}
					if !found {
						langs = append(langs, v)
						bt := build(r, specFor(r, e, langs, snapshot(h.objs[0]), 0))
						h.validate(0, bt.raw, bt.utxos, "history/warm-up/"+e.name)
						warm = bt
					}
				}
				if !containsU(langsAll, v) {
					continue
				}
				h.mutate(op, 0, v, smallCM(r))
				cur := snapshot(h.objs[0])
				// the very same transaction bytes that were accepted before the change
				h.validate(0, warm.raw, warm.utxos, "history/same-tx-after-"+op+"/"+e.name)
				// hash computed for the OUTDATED cost models: must be rejected now
				bt = build(r, specFor(r, e, langs, old, 0))
				h.validate(0, bt.raw, bt.utxos, "history/old-hash-after-"+op+"/"+e.name)
				// hash for the CURRENT cost models: must be accepted
				bt = build(r, specFor(r, e, langs, cur, 0))
				h.validate(0, bt.raw, bt.utxos, "history/new-hash-after-"+op+"/"+e.name)
				// the other object is untouched
				bt = build(r, specFor(r, e, langs, snapshot(h.objs[1]), 0))
				h.validate(1, bt.raw, bt.utxos, "history/untouched-object/"+e.name)
				bt = build(r, specFor(r, e, other, cur, 0))
				h.validate(0, bt.raw, bt.utxos, "history/other-language-set/"+e.name)
			}
		}
		// (b) random interleavings on two objects
		for k := 0; k < c.Pick(2, 12); k++ {
			init := []map[uint][]int64{{}, {}}
			for _, v := range []uint{0, 1, 2, 3} {
				init[0][v], init[1][v] = smallCM(r), smallCM(r)
			}
			h := newHistory(c, cf, e, init)
			prev := []map[uint][]int64{snapshot(h.objs[0]), snapshot(h.objs[1])}
			for step := 0; step < c.Pick(10, 16); step++ {
				obj := r.Intn(2)
				if r.Intn(3) == 0 {
					prev[obj] = snapshot(h.objs[obj])
					h.mutate(vh.PickOne(r, []string{"direct", "update", "genesis"}), obj, vh.PickOne(r, langsAll), smallCM(r))
					continue
				}
				cms, cls := snapshot(h.objs[obj]), "history/random/current-hash/"
				if r.Intn(3) == 0 {
					cms, cls = prev[obj], "history/random/previous-hash/"
				}
				bt := build(r, specFor(r, e, pickLangs(r, e), cms, 0))
				h.validate(obj, bt.raw, bt.utxos, cls+e.name)
			}
		}
	}
}

func containsU(xs []uint, v uint) bool {
	for _, x := range xs {
		if x == v {
			return true
		}
	}
	return false
}

// ---------------------------------------------------------------------------
// generators

func costModel(r *vh.Rng, c *vh.Ctx) []int64 {
	n := 0
	switch r.Intn(8) {
	case 0:
		n = 0
	case 1:
		n = 1
	case 2:
		n = 23 + r.Intn(3) // header form boundary
	case 3:
		if r.Intn(c.Pick(3, 2)) == 0 {
			n = []int{166, 175, 251, 255, 256, 257, 297}[r.Intn(7)] // real table sizes and the 1-/2-byte count boundary
		} else {
			n = 2 + r.Intn(4)
		}
	default:
		n = 1 + r.Intn(12)
	}
	cm := make([]int64, n)
	for i := range cm {
		switch r.Intn(6) {
		case 0:
			cm[i] = int64(r.Boundary())
		case 1:
			cm[i] = -int64(r.Boundary()>>1) - 1
		case 2:
			cm[i] = []int64{0, -1, 23, 24, -24, -25, 255, 256, -256, -257, 65535, 65536, 1<<31 - 1, 1 << 32, -(1 << 32) - 1, 1<<63 - 1, -1 << 63}[r.Intn(17)]
		default:
			cm[i] = int64(r.Intn(1000000))
		}
	}
	return cm
}

func costModels(r *vh.Rng, c *vh.Ctx, versions []uint) map[uint][]int64 {
	m := map[uint][]int64{}
	for _, v := range versions {
		m[v] = costModel(r, c)
	}
	return m
}

func subset(mask int) []uint {
	var out []uint
	for v := uint(0); v < 4; v++ {
		if mask&(1<<v) != 0 {
			out = append(out, v)
		}
	}
	return out
}

func shuffle(r *vh.Rng, xs []uint) []uint {
	out := append([]uint{}, xs...)
	for i := len(out) - 1; i > 0; i-- {
		j := r.Intn(i + 1)
		out[i], out[j] = out[j], out[i]
	}
	return out
}

func run(c *vh.Ctx) error {
	c.Res.Rule = "EncodeLangViews: every subset of PlutusV1..V4 (presented in shuffled order) x cost models; a length grid per language: 0, 1, 23, 24, 255, 256, 257, 1000 entries (every array / byte-string header width; explicit lists with boundary integers and uniform lists built inside Coq), thorough also 5000, 65532, 65535..65537, 70000; random lengths 0..12, 23..25, 166..297; values over the whole int64 range incl. header-width boundaries, plus missing-cost-model and unsupported-version errors, nil vs empty slices; ShortLex on byte-string pairs of equal/different lengths; rule: Alonzo/Babbage/Conway/Dijkstra transactions decoded from bytes, redeemers absent / list / map / empty, datums absent / array / tag-258 set / empty, non-canonical and indefinite encodings of both, PlutusV1..V3 witness scripts, reference scripts on reference and regular inputs (native, V1..V4, unresolvable), declared hash correct / absent / random / computed from one changed piece / computed under different cost models, one cost model missing; every grid case and half of the random ones a second time DECODED INTO A VALUE THAT ALREADY HOLDS the previous transaction of the era, plus scripted pairs (datums / redeemers / scripts / reference inputs / hash present in A and absent in B) - expected verdict = model on B alone; validation HISTORIES on two long-lived parameter objects per era: warm-up validations, a used language's cost model changed in place (direct map write / the era's Update with a decoded update payload / UpdateFromGenesis), then the hash for the outdated models (must be rejected), the hash for the current models (accepted), the untouched object and another language set, plus random interleavings; every verdict compared with the stateless model on the current cost models. distinct by (tx bytes, cost models); non-trivial = redeemers or datums or a declared hash present (rule), at least one non-empty view or two languages (encoding)"
	c.Res.Modelled = []string{
		"Blake2b-256 is a Section variable in the theorems; in the correspondence it is the finite table of (preimage, digest) pairs the harness computed with golang.org/x/crypto/blake2b for the specified preimage and its plausible variants (any other preimage hashes to the empty string, which never equals a declared 32-byte hash)",
		"the third-party encoder (shortest-form heads for int64, []byte, []int64) is modelled by head_min; validated byte for byte on every EncodeLangViews case",
		"the transaction view (counts, stored bytes of witness-set keys 4 and 5, script presence, reference-script kinds) is extracted by an independent CBOR walk in the harness, not by the library",
	}
	cf := c.NewCaseFile("c31", header)
	cf.SetShardSize(c.Pick(120, 250))
	if c.Replay != "" {
		b, err := os.ReadFile(c.Replay)
		if err != nil {
			return err
		}
		var rp struct {
			Replay rcase `json:"replay"`
		}
		if err := json.Unmarshal(b, &rp); err != nil {
			return err
		}
		r := rp.Replay
		switch r.Kind {
		case "lang":
			runLang(c, cf, r.Used, cmsFromJSON(r.Cms, r.NilEmpty), r.NilEmpty, "replay")
		case "hist":
			replayHistory(c, cf, eraByID(r.Era), r.Steps)
		case "langrep":
			runLangRep(c, cf, r.Used, cmsFromJSON(r.Cms, false), r.RepV, r.RepN, r.RepZ, "replay")
		case "lex":
			runLex(c, cf, vh.UnHex(r.A), vh.UnHex(r.B))
		default:
			if r.PrevTx != "" {
				dirtyPrev, keyPrefix = vh.UnHex(r.PrevTx), "dirty-receiver/"
			}
			runRule(c, cf, eraByID(r.Era), vh.UnHex(r.Tx), r.Utxos, cmsFromJSON(r.Cms, r.NilEmpty), r.NilEmpty, "replay")
			dirtyPrev, keyPrefix = nil, ""
		}
		cf.Flush()
		return nil
	}
	r := c.Rng

	// ---- EncodeLangViews -------------------------------------------------------
	// corpus: the shapes the comments of the code describe
	runLang(c, cf, []uint{0}, map[uint][]int64{0: {1, 2, 3}}, false, "lang/corpus")
	runLang(c, cf, []uint{1}, map[uint][]int64{1: {1, 2, 3}}, false, "lang/corpus")
	runLang(c, cf, []uint{0, 1, 2, 3}, map[uint][]int64{0: {-1}, 1: {24}, 2: {}, 3: {256}}, false, "lang/corpus")
	runLang(c, cf, []uint{}, map[uint][]int64{}, false, "lang/corpus")
	runLang(c, cf, []uint{1}, map[uint][]int64{1: nil}, true, "lang/nil-slice")
	runLang(c, cf, []uint{0}, map[uint][]int64{0: nil}, true, "lang/nil-slice")
	runLang(c, cf, []uint{2, 0}, map[uint][]int64{0: nil, 2: nil}, true, "lang/nil-slice")
	// cost-model lengths across every array / byte-string header width, for
	// every language, alone and together with the other languages
	boundaryInts := []int64{0, -1, 23, 24, -24, -25, 255, 256, -256, -257, 65535, 65536, -65536, -65537, 1<<32 - 1, 1 << 32, -(1 << 32) - 1, 1<<63 - 1, -1 << 63}
	cfLen := c.NewCaseFile("c31len", header)
	cfLen.SetShardSize(c.Pick(10, 12))
	for v := uint(0); v < 4; v++ {
		for _, n := range []int{0, 1, 23, 24, 255, 256, 257, 1000} {
			// (a) explicit list with boundary integers (short literal: mostly small values above 257)
			cm := make([]int64, n)
			for i := range cm {
				if n <= 257 && i%3 == 0 || i%97 == 0 {
					cm[i] = boundaryInts[(i/3+int(v))%len(boundaryInts)]
				} else {
					cm[i] = int64(r.Intn(24))
				}
			}
			used := []uint{v}
			if r.Bool() {
				used = shuffle(r, []uint{0, 1, 2, 3})
			}
			cms := costModels(r, c, []uint{0, 1, 2, 3})
			for k := range cms {
				if len(cms[k]) > 12 {
					cms[k] = cms[k][:12]
				}
			}
			cms[v] = cm
			c.Res.Distribution[fmt.Sprintf("cost-model-length/v%d/%d", v+1, n)]++
			runLang(c, cfLen, used, cms, false, "lang/length-grid")
			// (b) n copies of a one-byte integer
			delete(cms, v)
			runLangRep(c, cfLen, used, cms, v, n, []int64{0, 23, -1, -24}[r.Intn(4)], "lang/length-grid-uniform")
		}
	}
	cfLen.Flush()
	if c.Thorough() {
		for _, p := range []struct {
			v uint
			n int
		}{{0, 65536}, {1, 65535}, {1, 65536}, {0, 70000}, {2, 65537}, {3, 65536}, {0, 5000}, {0, 65535 - 3}} {
			cfBig := c.NewCaseFile(fmt.Sprintf("c31big%d_%d", p.v, p.n), header)
			runLangRep(c, cfBig, shuffle(r, []uint{0, 1, 2, 3}), map[uint][]int64{0: {1}, 1: {-1}, 2: {}, 3: {24}}, p.v, p.n, int64(r.Intn(24)), "lang/length-huge")
			cfBig.Flush()
		}
	}
	for round := 0; round < c.Pick(6, 60); round++ {
		for mask := 0; mask < 16; mask++ {
			used := shuffle(r, subset(mask))
			cms := costModels(r, c, []uint{0, 1, 2, 3})
			runLang(c, cf, used, cms, false, fmt.Sprintf("lang/subset-size-%d", len(used)))
		}
	}
	for i := 0; i < c.Pick(12, 80); i++ { // error paths
		used := shuffle(r, subset(1+r.Intn(15)))
		cms := costModels(r, c, []uint{0, 1, 2, 3})
		if r.Bool() {
			delete(cms, used[r.Intn(len(used))])
			runLang(c, cf, used, cms, false, "lang/missing-cost-model")
		} else {
			v := uint(4 + r.Intn(4))
			cms[v] = costModel(r, c)
			runLang(c, cf, append(used, v), cms, false, "lang/unsupported-version")
		}
	}

	// ---- ShortLex --------------------------------------------------------------
	lex := [][2]string{{"", ""}, {"01", "4100"}, {"4100", "01"}, {"4100", "03"}, {"02", "01"}, {"01", "02"}, {"0100", "0001"}, {"ff", "0000"}, {"0000", "ff"}, {"41", "4100"}, {"4100", "4100"}}
	for _, p := range lex {
		runLex(c, cf, vh.UnHex(p[0]), vh.UnHex(p[1]))
	}
	for i := 0; i < c.Pick(60, 500); i++ {
		a := r.Bytes(r.Intn(4))
		b := r.Bytes(r.Intn(4))
		if r.Intn(3) == 0 && len(a) > 0 {
			b = append([]byte{}, a...)
			b[r.Intn(len(b))] ^= byte(1 << uint(r.Intn(8)))
		}
		runLex(c, cf, a, b)
	}

	// ---- the rule ----------------------------------------------------------------
	// systematic grid: era x redeemers {absent, empty, present} x datums {absent,
	// empty, present} x declared hash {correct, absent, random, one piece changed}
	for i := range eras {
		e := &eras[i]
		for red := 0; red < 3; red++ {
			for dat := 0; dat < 3; dat++ {
				for _, hm := range []int{0, 1, 2, 3} {
					s := &txSpec{era: e, dropCM: -1, hashMode: hm}
					if red > 0 {
						s.redForm = 1
						if e.id >= conway.TxTypeConway {
							s.redForm = 2
						}
						s.nRed = (red - 1) * (1 + r.Intn(2))
					}
					if dat > 0 {
						s.datForm = 1
						if e.id >= conway.TxTypeConway && r.Bool() {
							s.datForm = 2
						}
						s.nDat = (dat - 1) * (1 + r.Intn(2))
					}
					s.v1 = r.Bool()
					s.v2 = r.Bool()
					s.inKinds = []int{-1}
					s.cms = costModels(r, c, []uint{0, 1, 2, 3})
					bt := build(r, s)
					runRuleBoth(c, cf, e, bt.raw, bt.utxos, s.cms, false, fmt.Sprintf("rule-grid/%s/hashmode-%d", e.name, hm))
				}
			}
		}
	}
	// scripted receiver reuse: A leaves something behind that B does not carry
	for i := range eras {
		e := &eras[i]
		mapForm := 1
		if e.id >= conway.TxTypeConway {
			mapForm = 2
		}
		pairs := [][2]txSpec{
			{{redForm: mapForm, nRed: 1, datForm: 1, nDat: 2, v1: true}, {redForm: mapForm, nRed: 1, v1: true}},   // datums -> none
			{{redForm: mapForm, nRed: 2, v1: true}, {datForm: 1, nDat: 1, v1: true}},                               // redeemers -> none
			{{redForm: mapForm, nRed: 1, v1: true, v2: true, v3: true}, {redForm: mapForm, nRed: 1}},               // scripts -> none
			{{redForm: mapForm, nRed: 1, datForm: 1, nDat: 1, v1: true}, {}},                                       // everything -> plain tx
			{{redForm: 1, nRed: 1, v1: true}, {redForm: mapForm, nRed: 1, v1: true}},                               // list form -> map form
			{{redForm: mapForm, nRed: 1, datForm: 1, nDat: 1, refKinds: []int{2, 4}}, {redForm: mapForm, nRed: 1}}, // reference inputs -> none
		}
		for _, pr := range pairs {
			for _, hm := range []int{0, 1} {
				a, b := pr[0], pr[1]
				a.era, a.dropCM, a.inKinds, a.cms = e, -1, []int{-1}, costModels(r, c, []uint{0, 1, 2, 3})
				b.era, b.dropCM, b.inKinds, b.cms, b.hashMode = e, -1, []int{-1}, a.cms, hm
				if e.id < babbage.TxTypeBabbage {
					a.refKinds = nil
				}
				ba, bb := build(r, &a), build(r, &b)
				if _, err := ledger.NewTransactionFromCbor(e.id, ba.raw); err != nil {
					continue
				}
				utx := map[string]string{}
				for k, v := range bb.utxos {
					utx[k] = v
				}
				dirtyPrev, keyPrefix = ba.raw, "dirty-receiver/"
				runRule(c, cf, e, bb.raw, utx, b.cms, false, fmt.Sprintf("dirty-receiver/scripted/%s/hashmode-%d", e.name, hm))
				dirtyPrev, keyPrefix = nil, ""
			}
		}
	}

	// long PlutusV1/V2 cost models at rule level (header widths of the list and of the wrapping byte string)
	for i := range eras {
		e := &eras[i]
		for _, ln := range []int{255, 256, 257, 300} {
			for _, hm := range []int{0, 3} {
				s := &txSpec{era: e, dropCM: -1, hashMode: hm, redForm: 1, nRed: 1, v1: true, v2: ln%2 == 0, inKinds: []int{-1}}
				if e.id >= conway.TxTypeConway {
					s.redForm = 2
				}
				s.cms = costModels(r, c, []uint{0, 1, 2, 3})
				for _, v := range []uint{0, 1} {
					cm := make([]int64, ln)
					for k := range cm {
						cm[k] = int64(r.Intn(30))
					}
					s.cms[v] = cm
				}
				bt := build(r, s)
				c.Res.Distribution[fmt.Sprintf("cost-model-length/rule/%d", ln)]++
				runRule(c, cf, e, bt.raw, bt.utxos, s.cms, false, fmt.Sprintf("rule-long-cost-model/%s/hashmode-%d", e.name, hm))
			}
		}
	}
	n := c.Pick(200, 3000)
	for i := 0; i < n; i++ {
		e := &eras[r.Intn(len(eras))]
		s := &txSpec{era: e, dropCM: -1}
		s.redForm = r.Intn(3)
		if s.redForm == 2 && e.id < conway.TxTypeConway {
			s.redForm = 1
		}
		if s.redForm != 0 {
			s.nRed = r.Intn(4)
			if r.Intn(4) == 0 {
				s.nRed = 0
			}
		}
		s.datForm = r.Intn(3)
		if s.datForm == 2 && e.id < conway.TxTypeConway {
			s.datForm = 1
		}
		if s.datForm != 0 {
			s.nDat = r.Intn(3)
		}
		s.v1, s.v2, s.v3 = r.Intn(2) == 0, r.Intn(3) == 0, r.Intn(3) == 0
		s.reform = r.Intn(3) == 0
		kinds := []int{-1, -1, 0, 1, 2, 3, 4}
		for k := 1 + r.Intn(2); k > 0; k-- {
			s.inKinds = append(s.inKinds, vh.PickOne(r, kinds))
		}
		if r.Intn(8) == 0 {
			s.inKinds[0] = -2
		}
		if e.id >= babbage.TxTypeBabbage {
			for k := r.Intn(3); k > 0; k-- {
				s.refKinds = append(s.refKinds, vh.PickOne(r, kinds))
			}
			if len(s.refKinds) > 0 && r.Intn(12) == 0 {
				s.refKinds[0] = -2
			}
		}
		s.cms = costModels(r, c, []uint{0, 1, 2, 3})
		switch r.Intn(10) {
		case 0, 1, 2, 3, 4:
			s.hashMode = 0
		case 5:
			s.hashMode = 1
		case 6:
			s.hashMode = 2
		case 7, 8:
			s.hashMode = 3
		default:
			s.hashMode = 4
		}
		bt := build(r, s)
		cms := s.cms
		class := fmt.Sprintf("rule/%s/hashmode-%d", e.name, s.hashMode)
		if r.Intn(12) == 0 {
			if u := usedByOracle(s); len(u) > 0 {
				cms = map[uint][]int64{}
				for k, v := range s.cms {
					cms[k] = v
				}
				delete(cms, u[r.Intn(len(u))])
				class = "rule/" + e.name + "/cost-model-missing"
			}
		}
		nilEmpty := false
		if r.Intn(10) == 0 {
			// the parameters carry the cost model of one used language as a nil slice
			if u := usedByOracle(s); len(u) > 0 {
				v := u[r.Intn(len(u))]
				s.cms[v] = nil
				cms[v] = nil
				bt = build(r, s) // declared hash per the specification (empty list)
				nilEmpty = true
				for k, m := range cms {
					if len(m) == 0 {
						cms[k] = nil
					}
				}
				class += "/nil-cost-model"
			}
		}
		if i%2 == 0 {
			runRuleBoth(c, cf, e, bt.raw, bt.utxos, cms, nilEmpty, class)
		} else {
			runRule(c, cf, e, bt.raw, bt.utxos, cms, nilEmpty, class)
		}
	}
	cf.Flush()
	cfH := c.NewCaseFile("c31hist", header)
	cfH.SetShardSize(c.Pick(60, 150))
	runHistories(c, cfH)
	cfH.Flush()
	return nil
}

func main() { vh.Main(vh.Runner{Property: "C31", Gen: gen, Run: run}) }
