package main

import (
	"fmt"

	"github.com/blinklabs-io/gouroboros/ledger/allegra"
	"github.com/blinklabs-io/gouroboros/ledger/alonzo"
	"github.com/blinklabs-io/gouroboros/ledger/babbage"
	"github.com/blinklabs-io/gouroboros/ledger/common"
	"github.com/blinklabs-io/gouroboros/ledger/conway"
	"github.com/blinklabs-io/gouroboros/ledger/dijkstra"
	"github.com/blinklabs-io/gouroboros/ledger/mary"
	"github.com/blinklabs-io/gouroboros/ledger/shelley"

	"verifharness/vh"
)

var eraNames = []string{"shelley", "allegra", "mary", "alonzo", "babbage", "conway", "dijkstra"}

func eraRules(era string) []common.UtxoValidationRuleFunc {
	switch era {
	case "shelley":
		return shelley.UtxoValidationRules
	case "allegra":
		return allegra.UtxoValidationRules
	case "mary":
		return mary.UtxoValidationRules
	case "alonzo":
		return alonzo.UtxoValidationRules
	case "babbage":
		return babbage.UtxoValidationRules
	case "conway":
		return conway.UtxoValidationRules
	case "dijkstra":
		return dijkstra.UtxoValidationRules
	}
	return nil
}

func eraPparams(era string) common.ProtocolParameters {
	switch era {
	case "shelley":
		return &shelley.ShelleyProtocolParameters{}
	case "allegra":
		return &allegra.AllegraProtocolParameters{}
	case "mary":
		return &mary.MaryProtocolParameters{}
	case "alonzo":
		return &alonzo.AlonzoProtocolParameters{}
	case "babbage":
		return &babbage.BabbageProtocolParameters{}
	case "conway":
		return &conway.ConwayProtocolParameters{}
	case "dijkstra":
		return &dijkstra.DijkstraProtocolParameters{}
	}
	return nil
}

func decodeTx(era string, data []byte) (common.Transaction, error) {
	switch era {
	case "shelley":
		return shelley.NewShelleyTransactionFromCbor(data)
	case "allegra":
		return allegra.NewAllegraTransactionFromCbor(data)
	case "mary":
		return mary.NewMaryTransactionFromCbor(data)
	case "alonzo":
		return alonzo.NewAlonzoTransactionFromCbor(data)
	case "babbage":
		return babbage.NewBabbageTransactionFromCbor(data)
	case "conway":
		return conway.NewConwayTransactionFromCbor(data)
	case "dijkstra":
		return dijkstra.NewDijkstraTransactionFromCbor(data)
	}
	return nil, fmt.Errorf("unknown era %s", era)
}

func eraIndex(era string) int {
	for i, e := range eraNames {
		if e == era {
			return i
		}
	}
	return -1
}

// envelope wraps body and witness set the way the era puts a transaction on
// the wire: [body, wits, aux] up to Mary, [body, wits, is_valid, aux] from Alonzo.
func envelope(era string, body, wits *vh.Item, isValid bool) *vh.Item {
	if eraIndex(era) >= 3 {
		return vh.A(body, wits, vh.BoolItem(isValid), vh.Null())
	}
	return vh.A(body, wits, vh.Null())
}

func enterpriseAddr(keyHash []byte) []byte { return append([]byte{0x61}, keyHash...) }

// baseBody returns the mandatory body keys (inputs, outputs, fee) as k,v pairs.
func baseBody(era string, txid []byte, fee uint64) []*vh.Item {
	addr := enterpriseAddr(make([]byte, 28))
	return []*vh.Item{
		vh.U(0), vh.A(vh.A(vh.B(txid), vh.U(0))),
		vh.U(1), vh.A(vh.A(vh.B(addr), vh.U(2000000))),
		vh.U(2), vh.U(fee),
	}
}
