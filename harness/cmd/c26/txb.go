package main

import (
	"fmt"

	"github.com/blinklabs-io/gouroboros/ledger/allegra"
	"github.com/blinklabs-io/gouroboros/ledger/alonzo"
	"github.com/blinklabs-io/gouroboros/ledger/babbage"
	"github.com/blinklabs-io/gouroboros/ledger/common"
	"github.com/blinklabs-io/gouroboros/ledger/conway"
	"github.com/blinklabs-io/gouroboros/ledger/dijkstra"
	"github.com/blinklabs-io/gouroboros/ledger/mary"
	"github.com/blinklabs-io/gouroboros/ledger/shelley"

	"verifharness/vh"
)

var eraNames = []string{"shelley", "allegra", "mary", "alonzo", "babbage", "conway", "dijkstra"}

func eraRules(era string) []common.UtxoValidationRuleFunc {
	switch era {
	case "shelley":
		return shelley.UtxoValidationRules
	case "allegra":
		return allegra.UtxoValidationRules
	case "mary":
		return mary.UtxoValidationRules
	case "alonzo":
		return alonzo.UtxoValidationRules
	case "babbage":
		return babbage.UtxoValidationRules
	case "conway":
		return conway.UtxoValidationRules
	case "dijkstra":
		return dijkstra.UtxoValidationRules
	}
	return nil
}

func eraPparams(era string) common.ProtocolParameters {
	switch era {
	case "shelley":
		return &shelley.ShelleyProtocolParameters{}
	case "allegra":
		return &allegra.AllegraProtocolParameters{}
	case "mary":
		return &mary.MaryProtocolParameters{}
	case "alonzo":
		return &alonzo.AlonzoProtocolParameters{}
	case "babbage":
		return &babbage.BabbageProtocolParameters{}
	case "conway":
		return &conway.ConwayProtocolParameters{}
	case "dijkstra":
		return &dijkstra.DijkstraProtocolParameters{}
	}
	return nil
}

func decodeTx(era string, data []byte) (common.Transaction, error) {
	switch era {
	case "shelley":
		return shelley.NewShelleyTransactionFromCbor(data)
	case "allegra":
		return allegra.NewAllegraTransactionFromCbor(data)
	case "mary":
		return mary.NewMaryTransactionFromCbor(data)
	case "alonzo":
		return alonzo.NewAlonzoTransactionFromCbor(data)
	case "babbage":
		return babbage.NewBabbageTransactionFromCbor(data)
	case "conway":
		return conway.NewConwayTransactionFromCbor(data)
	case "dijkstra":
		return dijkstra.NewDijkstraTransactionFromCbor(data)
	}
	return nil, fmt.Errorf("unknown era %s", era)
}

func eraIndex(era string) int {
	for i, e := range eraNames {
		if e == era {
			return i
		}
	}
	return -1
}

// envelope wraps body and witness set the way the era puts a transaction on
// the wire: [body, wits, aux] up to Mary, [body, wits, is_valid, aux] from Alonzo.
func envelope(era string, body, wits *vh.Item, isValid bool) *vh.Item {
	if eraIndex(era) >= 3 {
		return vh.A(body, wits, vh.BoolItem(isValid), vh.Null())
	}
	return vh.A(body, wits, vh.Null())
}

func enterpriseAddr(keyHash []byte) []byte { return append([]byte{0x61}, keyHash...) }

// ---- transaction shape, varied independently of the property-relevant fields ----

// shape counts the parts of a transaction that no rule under test reads but
// that size-dependent paths of the validation pipeline may depend on.
type shape struct {
	Inputs  int `json:"inputs"`
	Refs    int `json:"refs"`    // reference inputs (Babbage+)
	Outputs int `json:"outputs"` //
	Certs   int `json:"certs"`   // stake registration certificates
	Coll    int `json:"coll"`    // collateral inputs (Alonzo+; unused where collateral is property-relevant)
}

var shapeCounts = []int{0, 1, 2, 7, 8, 9, 16, 40}

var defaultShape = shape{Inputs: 1, Outputs: 1}

func genShape(r *vh.Rng) shape {
	if r.Chance(1, 4) {
		return defaultShape
	}
	pick := func() int { return vh.PickOne(r, shapeCounts) }
	sh := shape{Inputs: pick(), Refs: pick(), Coll: pick(), Outputs: []int{1, 1, 2, 9}[r.Intn(4)], Certs: []int{0, 0, 1, 3}[r.Intn(4)]}
	if r.Chance(1, 2) {
		// keep the total number of referenced UTxOs around the small-transaction boundary
		sh.Refs, sh.Coll = []int{0, 1, 7}[r.Intn(3)], 0
	}
	return sh
}

func shapeTxid(prefix byte, i int) []byte {
	b := make([]byte, 32)
	b[0], b[30], b[31] = prefix, byte(i>>8), byte(i)
	return b
}

func inputList(prefix byte, n int) *vh.Item {
	var xs []*vh.Item
	for i := 0; i < n; i++ {
		xs = append(xs, vh.A(vh.B(shapeTxid(prefix, i)), vh.U(uint64(i%3))))
	}
	return vh.A(xs...)
}

// shapedBody returns the body keys every era has (inputs, outputs, fee) plus
// the shape-only keys the era knows (certificates 4, collateral 13 when
// withColl, reference inputs 18) as k,v pairs.
func shapedBody(era string, sh shape, fee uint64, withColl bool) []*vh.Item {
	addr := enterpriseAddr(make([]byte, 28))
	var outs []*vh.Item
	for i := 0; i < sh.Outputs; i++ {
		outs = append(outs, vh.A(vh.B(addr), vh.U(uint64(2000000+i))))
	}
	kv := []*vh.Item{
		vh.U(0), inputList(0x11, sh.Inputs),
		vh.U(1), vh.A(outs...),
		vh.U(2), vh.U(fee),
	}
	if sh.Certs > 0 {
		var cs []*vh.Item
		for i := 0; i < sh.Certs; i++ {
			h := make([]byte, 28)
			h[0], h[1] = 0xce, byte(i)
			cs = append(cs, vh.A(vh.U(0), vh.A(vh.U(0), vh.B(h))))
		}
		kv = append(kv, vh.U(4), vh.A(cs...))
	}
	if withColl && sh.Coll > 0 && eraIndex(era) >= 3 {
		kv = append(kv, vh.U(13), inputList(0x33, sh.Coll))
	}
	if sh.Refs > 0 && eraIndex(era) >= 4 {
		kv = append(kv, vh.U(18), inputList(0x22, sh.Refs))
	}
	return kv
}

// baseBody returns the mandatory body keys (inputs, outputs, fee) as k,v pairs.
func baseBody(era string, txid []byte, fee uint64) []*vh.Item {
	return shapedBody(era, defaultShape, fee, false)
}

// projectedVerify runs common.VerifyTransaction over the era's WHOLE rule
// list with the given ledger state.  The rules selected by isTarget are passed
// unchanged; every other rule is executed too (same arguments) but its verdict
// and panics are discarded, so that the error VerifyTransaction returns is the
// one of the target rules: the observable is the target rules' error as seen
// through the real pipeline.
func projectedVerify(era string, isTarget func(name string) bool, tx common.Transaction, slot uint64,
	ls common.LedgerState, pp common.ProtocolParameters) (err error, targets int) {
	var rules []common.UtxoValidationRuleFunc
	for _, r := range eraRules(era) {
		_, name, _ := funcInfo(r)
		if isTarget(name) {
			rules = append(rules, r)
			targets++
			continue
		}
		rr := r
		rules = append(rules, func(tx common.Transaction, slot uint64, ls common.LedgerState, pp common.ProtocolParameters) error {
			defer func() { _ = recover() }()
			_ = rr(tx, slot, ls, pp)
			return nil
		})
	}
	return common.VerifyTransaction(tx, slot, ls, pp, rules), targets
}

// directRules calls the target rules of the era's list one after the other
// with the caller's ledger state, without VerifyTransaction.
func directRules(era string, isTarget func(name string) bool, tx common.Transaction, slot uint64,
	ls common.LedgerState, pp common.ProtocolParameters) error {
	for _, r := range eraRules(era) {
		_, name, _ := funcInfo(r)
		if !isTarget(name) {
			continue
		}
		if err := r(tx, slot, ls, pp); err != nil {
			return err
		}
	}
	return nil
}
