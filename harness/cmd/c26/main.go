// C26 - transactions are accepted only inside their validity interval.
package main

import (
	"encoding/json"
	"errors"
	"fmt"
	"os"
	"strings"

	"github.com/blinklabs-io/gouroboros/ledger/allegra"
	"github.com/blinklabs-io/gouroboros/ledger/common"
	"github.com/blinklabs-io/gouroboros/ledger/shelley"

	"verifharness/vh"
)

const header = `From Coq Require Import String.
From V Require Import Lib.Base C26.Model.
Open Scope string_scope.`

type bound struct {
	Present bool   `json:"present"`
	V       uint64 `json:"v"`
	Wide    int    `json:"wide"` // header form: 0 minimal, 1..4 = 1,2,4,8 byte argument
}

type rcase struct {
	Era   string `json:"era"`
	Slot  uint64 `json:"slot"`
	Start bound  `json:"start"`
	TTL   bound  `json:"ttl"`
	// observations
	Shape     *shape `json:"shape,omitempty"` // nil = one input, one output
	TxHex     string `json:"tx_hex,omitempty"`
	Accepted  bool   `json:"accepted"`        // whole era rule list through common.VerifyTransaction
	Direct    bool   `json:"accepted_direct"` // validity rule function(s) called directly
	RuleNames string `json:"validity_rules_in_list,omitempty"`
}

// mockLS answers nothing: any rule that consults the ledger state panics,
// which the harness recovers (such rules are not validity-interval rules).
type mockLS struct{ common.LedgerState }

func (rc rcase) shape() shape {
	if rc.Shape == nil {
		return defaultShape
	}
	return *rc.Shape
}

func uintItem(b bound) *vh.Item {
	it := vh.U(b.V)
	forms := []vh.Form{vh.Fimm, vh.F1, vh.F2, vh.F4, vh.F8}
	if b.Wide > 0 && b.Wide < len(forms) && vh.Fits(forms[b.Wide], b.V) && forms[b.Wide] >= it.F {
		it.F = forms[b.Wide]
	}
	return it
}

func buildTx(rc rcase) []byte {
	kv := shapedBody(rc.Era, rc.shape(), 200000, true)
	if rc.TTL.Present {
		kv = append(kv, vh.U(3), uintItem(rc.TTL))
	}
	if rc.Start.Present {
		kv = append(kv, vh.U(8), uintItem(rc.Start))
	}
	return envelope(rc.Era, vh.M(kv...), vh.M(), true).Enc()
}

func isValidityError(err error) bool {
	var e1 shelley.ExpiredUtxoError
	var e2 allegra.OutsideValidityIntervalUtxoError
	return errors.As(err, &e1) || errors.As(err, &e2)
}

func isValidityRuleName(n string) bool {
	return strings.Contains(n, "ValidityInterval") || strings.Contains(n, "TimeToLive")
}

// observe runs (1) VerifyTransaction with the validity rules the era's list
// really contains and (2) every rule of the full list on its own, and reports
// whether any of them rejected the transaction with a validity-interval error.
func observe(rc *rcase) (harnessErr error) {
	data := buildTx(*rc)
	rc.TxHex = vh.Hex(data)
	tx, err := decodeTx(rc.Era, data)
	if err != nil {
		return fmt.Errorf("decode %s: %w", rc.Era, err)
	}
	// the decoder must deliver the bounds the rules read
	wantTTL, wantStart := uint64(0), uint64(0)
	if rc.TTL.Present {
		wantTTL = rc.TTL.V
	}
	if rc.Start.Present {
		wantStart = rc.Start.V
	}
	if tx.TTL() != wantTTL || tx.ValidityIntervalStart() != wantStart {
		return fmt.Errorf("decoder returned ttl=%d start=%d for %+v", tx.TTL(), tx.ValidityIntervalStart(), *rc)
	}
	rules := eraRules(rc.Era)
	pp := eraPparams(rc.Era)
	ls := mockLS{}
	var names []string
	rejected := false
	for _, r := range rules {
		_, name, _ := funcInfo(r)
		if isValidityRuleName(name) {
			names = append(names, name)
			continue
		}
		// any other rule: does it reject for validity-interval reasons?
		var rerr error
		vh.Recover(func() { rerr = r(tx, rc.Slot, ls, pp) })
		if rerr != nil && isValidityError(rerr) {
			rejected = true
		}
	}
	rc.RuleNames = strings.Join(names, ",")
	classify := func(err error) (bool, error) {
		if err == nil {
			return true, nil
		}
		if !isValidityError(err) {
			return false, fmt.Errorf("validity rule returned a foreign error: %v", err)
		}
		return false, nil
	}
	// (1) the validity rule function(s) of the list called directly
	var derr error
	if p, v := vh.Recover(func() { derr = directRules(rc.Era, isValidityRuleName, tx, rc.Slot, ls, pp) }); p {
		return fmt.Errorf("validity rule panicked: %v", v)
	}
	ok, err := classify(derr)
	if err != nil {
		return err
	}
	rc.Direct = ok && !rejected
	// (2) the whole era rule list through common.VerifyTransaction (other rules run, verdicts discarded)
	var verr error
	if p, v := vh.Recover(func() { verr, _ = projectedVerify(rc.Era, isValidityRuleName, tx, rc.Slot, ls, pp) }); p {
		return fmt.Errorf("VerifyTransaction panicked: %v", v)
	}
	ok, err = classify(verr)
	if err != nil {
		return err
	}
	rejected = rejected || !ok
	rc.Accepted = !rejected
	return nil
}

// monitor: the property text, evaluated directly.
func monitor(c *vh.Ctx, rc rcase) {
	if rc.Direct && !rc.Accepted {
		return // stricter through the pipeline: not a violation of "accepted only if"
	}
	if !rc.Accepted && !rc.Direct {
		return
	}
	if rc.Era == "shelley" {
		// Shelley: accepted only if the slot does not exceed the time-to-live
		ttl := rc.TTL.V
		if !rc.TTL.Present {
			return // a Shelley body without ttl is outside the CDDL; not judged
		}
		if rc.Slot > ttl {
			c.Res.Violate("monitor", "shelley-accepted-after-ttl",
				fmt.Sprintf("Shelley transaction with ttl=%d accepted at slot %d", ttl, rc.Slot), rc)
		}
		return
	}
	if rc.Start.Present && rc.Slot < rc.Start.V {
		c.Res.Violate("monitor", rc.Era+"-accepted-before-validity-start",
			fmt.Sprintf("%s transaction with validity start %d accepted at slot %d", rc.Era, rc.Start.V, rc.Slot), rc)
	}
	if rc.TTL.Present && rc.Slot >= rc.TTL.V {
		if rc.TTL.V == 0 {
			c.Res.Violate("monitor", "ttl-present-zero-treated-as-absent",
				fmt.Sprintf("%s transaction with invalid-hereafter present and equal to 0 accepted at slot %d (no slot is < 0)", rc.Era, rc.Slot), rc)
		} else {
			c.Res.Violate("monitor", rc.Era+"-accepted-at-or-after-invalid-hereafter",
				fmt.Sprintf("%s transaction with invalid-hereafter %d accepted at slot %d", rc.Era, rc.TTL.V, rc.Slot), rc)
		}
	}
}

func coqBound(b bound) string { return vh.Opt(vh.N(b.V), b.Present) }

func runCase(c *vh.Ctx, cf *vh.CaseFile, rc rcase) {
	c.Begin(rc)
	if err := observe(&rc); err != nil {
		c.Res.Violate("correspondence", "harness-error", err.Error(), rc)
		return
	}
	class := rc.Era + "/" + relClass(rc)
	canon := fmt.Sprintf("%s|%d|%v|%v|%v", rc.Era, rc.Slot, rc.Start, rc.TTL, rc.shape())
	c.Res.Count(canon, rc.Start.Present || rc.TTL.Present, class)
	if rc.TTL.Present && rc.TTL.V != 0 {
		c.Res.Sample(map[string]any{"era": rc.Era, "slot": rc.Slot, "start": rc.Start, "ttl": rc.TTL, "accepted": rc.Accepted})
	}
	monitor(c, rc)
	cf.Add(fmt.Sprintf("(%s, %s, %s, %s, %s, %s)", vh.Str(rc.Era), vh.N(rc.Slot), coqBound(rc.Start), coqBound(rc.TTL), vh.Bool(rc.Direct), vh.Bool(rc.Accepted)), rc)
}

func rel(b bound, slot uint64) string {
	switch {
	case !b.Present:
		return "absent"
	case b.V == 0 && slot != 0:
		return "zero"
	case b.V < slot:
		return "below"
	case b.V == slot:
		return "equal"
	}
	return "above"
}
func relClass(rc rcase) string {
	return "start-" + rel(rc.Start, rc.Slot) + "/ttl-" + rel(rc.TTL, rc.Slot)
}

// boundsAround: absent, 0, slot-1, slot, slot+1, 2^64-1 (+1 = 1)
func boundsAround(slot uint64) []bound {
	bs := []bound{{}, {Present: true, V: 0}, {Present: true, V: slot}, {Present: true, V: ^uint64(0)}, {Present: true, V: 1}}
	if slot > 0 {
		bs = append(bs, bound{Present: true, V: slot - 1})
	}
	if slot < ^uint64(0) {
		bs = append(bs, bound{Present: true, V: slot + 1})
	}
	return bs
}

func run(c *vh.Ctx) error {
	c.Res.Rule = "per era: a real transaction (CBOR built per era, minimal and widened integer headers) decoded by the era decoder; slot from {0,1,2,100,2^32,2^63,2^64-2,2^64-1,random}; each bound from {absent, 0, 1, slot-1, slot, slot+1, 2^64-1, random}; transaction shape varied independently (inputs / reference inputs / collateral in {0,1,2,7,8,9,16,40}, outputs, certificates); every case observed twice: validity rule called directly, and the whole era rule list through common.VerifyTransaction (other rules executed, verdicts discarded); distinct by (era, slot, start, ttl, shape); non-trivial = at least one bound present"
	c.Res.Modelled = []string{
		"the other entries of each UtxoValidationRules list are arbitrary boolean functions in the theorems (a Section-free universally quantified `other`); only the validity rules are interpreted",
		"the era decoders' treatment of keys 3 and 8 (absent -> 0) is modelled by of_opt and checked per case by the harness",
	}
	cf := c.NewCaseFile("c26", header)
	cf.SetShardSize(400)
	if c.Replay != "" {
		b, err := os.ReadFile(c.Replay)
		if err != nil {
			return err
		}
		var rp struct {
			Replay rcase `json:"replay"`
		}
		if err := json.Unmarshal(b, &rp); err != nil {
			return err
		}
		runCase(c, cf, rp.Replay)
		cf.Flush()
		return nil
	}
	// regression corpus first
	runCase(c, cf, rcase{Era: "mary", Slot: 100, TTL: bound{Present: true, V: 50}})
	runCase(c, cf, rcase{Era: "shelley", Slot: 5, TTL: bound{Present: true, V: 0}})
	runCase(c, cf, rcase{Era: "conway", Slot: 100, TTL: bound{Present: true, V: 100}})
	runCase(c, cf, rcase{Era: "allegra", Slot: 7, TTL: bound{Present: true, V: 0}})
	slots := []uint64{0, 1, 2, 100, 1 << 32, 1 << 63, ^uint64(0) - 1, ^uint64(0)}
	for _, era := range eraNames {
		for _, slot := range slots {
			bs := boundsAround(slot)
			for _, ttl := range bs {
				starts := bs
				if era == "shelley" {
					starts = []bound{{}}
				}
				for _, st := range starts {
					// the full grid on three slots, a random third elsewhere
					if !(slot == 100 || slot == 0 || slot == ^uint64(0)) && !c.Thorough() && c.Rng.Intn(3) != 0 {
						continue
					}
					ttl.Wide, st.Wide = c.Rng.Intn(5), c.Rng.Intn(5)
					sh := genShape(c.Rng)
					runCase(c, cf, rcase{Era: era, Slot: slot, Start: st, TTL: ttl, Shape: &sh})
				}
			}
		}
	}
	n := c.Pick(400, 6000)
	for i := 0; i < n; i++ {
		era := vh.PickOne(c.Rng, eraNames)
		slot := c.Rng.Boundary()
		pick := func() bound {
			bs := boundsAround(slot)
			if c.Rng.Chance(1, 3) {
				return bound{Present: true, V: c.Rng.Boundary(), Wide: c.Rng.Intn(5)}
			}
			b := vh.PickOne(c.Rng, bs)
			b.Wide = c.Rng.Intn(5)
			return b
		}
		rc := rcase{Era: era, Slot: slot, TTL: pick()}
		if era != "shelley" {
			rc.Start = pick()
		}
		sh := genShape(c.Rng)
		rc.Shape = &sh
		runCase(c, cf, rc)
	}
	cf.Flush()
	return nil
}

func gen(out string) error {
	s, err := eraRuleTable()
	if err != nil {
		return err
	}
	if out == "" {
		fmt.Print(s)
		return nil
	}
	return vh.WriteIfChanged(out, s)
}

func main() { vh.Main(vh.Runner{Property: "C26", Gen: gen, Run: run}) }
