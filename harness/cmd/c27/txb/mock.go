package txb

import (
	"bytes"
	"errors"
	"fmt"

	"github.com/blinklabs-io/gouroboros/ledger/allegra"
	"github.com/blinklabs-io/gouroboros/ledger/alonzo"
	"github.com/blinklabs-io/gouroboros/ledger/babbage"
	"github.com/blinklabs-io/gouroboros/ledger/common"
	"github.com/blinklabs-io/gouroboros/ledger/conway"
	"github.com/blinklabs-io/gouroboros/ledger/dijkstra"
	"github.com/blinklabs-io/gouroboros/ledger/mary"
	"github.com/blinklabs-io/gouroboros/ledger/shelley"
)

// Mock is a ledger state that answers only what the conservation rule (and the
// output rules) consult.  Every other method comes from the embedded nil
// interface and panics: that is a harness error, not a property violation.
type Mock struct {
	common.LedgerState
	Utxos map[string]common.Utxo // key = txid bytes
	Pools map[string]int         // operator hash -> pool oracle state (see PoolNew / PoolCurrentState)
	Calls []string
}

var ErrMissing = errors.New("mock: utxo not found")
var ErrPool = errors.New("mock: pool lookup failed")

func (m *Mock) UtxoById(in common.TransactionInput) (common.Utxo, error) {
	u, ok := m.Utxos[string(in.Id().Bytes())]
	if !ok {
		return common.Utxo{}, ErrMissing
	}
	return u, nil
}

// Pool oracle states: every combination PoolCurrentState can return.
const (
	PoolUnregistered      = 0 // (nil, nil, nil)
	PoolRegistered        = 1 // (cert, nil, nil)
	PoolLookupError       = 2 // (nil, nil, err)
	PoolRetiringFuture    = 3 // (cert, &epoch in the future, nil)
	PoolRetiringNowOrPast = 4 // (cert, &0, nil): retirement epoch already reached but still reported registered
	PoolUnregStaleEpoch   = 5 // (nil, &epoch, nil): no live registration, a retirement epoch left behind
)

// PoolNew: the ledger state has no live registration for the operator, so a
// registration certificate is a NEW registration (pays the deposit).  A
// registered pool - retiring or not - re-registers without a deposit.
func PoolNew(state int) bool { return state == PoolUnregistered || state == PoolUnregStaleEpoch }

func (m *Mock) PoolCurrentState(h common.PoolKeyHash) (*common.PoolRegistrationCertificate, *uint64, error) {
	future, past := uint64(1)<<40, uint64(0)
	reg := &common.PoolRegistrationCertificate{Operator: h}
	switch m.Pools[string(h[:])] {
	case PoolRegistered:
		return reg, nil, nil
	case PoolLookupError:
		return nil, nil, ErrPool
	case PoolRetiringFuture:
		return reg, &future, nil
	case PoolRetiringNowOrPast:
		return reg, &past, nil
	case PoolUnregStaleEpoch:
		return nil, &future, nil
	}
	return nil, nil, nil
}

func (m *Mock) NetworkId() uint { return 1 }

// DecodeTx runs the era's real transaction decoder.
func DecodeTx(e Era, data []byte) (common.Transaction, error) {
	switch e {
	case Shelley:
		return shelley.NewShelleyTransactionFromCbor(data)
	case Allegra:
		return allegra.NewAllegraTransactionFromCbor(data)
	case Mary:
		return mary.NewMaryTransactionFromCbor(data)
	case Alonzo:
		return alonzo.NewAlonzoTransactionFromCbor(data)
	case Babbage:
		return babbage.NewBabbageTransactionFromCbor(data)
	case Conway:
		return conway.NewConwayTransactionFromCbor(data)
	case Dijkstra:
		return dijkstra.NewDijkstraTransactionFromCbor(data)
	}
	return nil, fmt.Errorf("bad era")
}

// DecodeOutput runs the era's real output decoder on one output.
func DecodeOutput(e Era, data []byte) (common.TransactionOutput, error) {
	switch e {
	case Shelley, Allegra:
		return shelley.NewShelleyTransactionOutputFromCbor(data)
	case Mary:
		return mary.NewMaryTransactionOutputFromCbor(data)
	case Alonzo:
		return alonzo.NewAlonzoTransactionOutputFromCbor(data)
	default:
		return babbage.NewBabbageTransactionOutputFromCbor(data)
	}
}

// utxoEra: the era whose output format a spent UTxO is written in (outputs
// created in an earlier era are common; we use the transaction's own era,
// and the Alonzo array form for Dijkstra legacy outputs).
func (t *Tx) MockState() (*Mock, error) {
	m := &Mock{Utxos: map[string]common.Utxo{}, Pools: map[string]int{}}
	for i, in := range t.Inputs {
		if !in.Resolved {
			continue
		}
		raw := OutputItem(t.Era, 50+i, in.Val, t.LegacyOut, 0).Enc()
		o, err := DecodeOutput(t.Era, raw)
		if err != nil {
			return nil, fmt.Errorf("utxo %d: %w", i, err)
		}
		m.Utxos[string(TxId(i))] = common.Utxo{Output: o}
	}
	for i, r := range t.RefInputs {
		if !r.Resolved {
			continue
		}
		if r.Script == 5 { // the state returns a Utxo without an Output
			m.Utxos[string(RefTxId(i))] = common.Utxo{}
			continue
		}
		raw := OutputItem(Babbage, 90+i, Value{Coin: 2000000}, false, r.Script).Enc()
		o, err := DecodeOutput(Babbage, raw)
		if err != nil {
			return nil, fmt.Errorf("ref utxo %d: %w", i, err)
		}
		m.Utxos[string(RefTxId(i))] = common.Utxo{Output: o}
	}
	for i, p := range t.Pools {
		m.Pools[string(PoolId(i))] = p
	}
	return m, nil
}

func (t *Tx) PParams() common.ProtocolParameters {
	kd, pd := uint(t.KeyDeposit), uint(t.PoolDeposit)
	switch t.Era {
	case Shelley:
		return &shelley.ShelleyProtocolParameters{KeyDeposit: kd, PoolDeposit: pd}
	case Allegra:
		return &allegra.AllegraProtocolParameters{KeyDeposit: kd, PoolDeposit: pd}
	case Mary:
		return &mary.MaryProtocolParameters{KeyDeposit: kd, PoolDeposit: pd}
	case Alonzo:
		return &alonzo.AlonzoProtocolParameters{KeyDeposit: kd, PoolDeposit: pd}
	case Babbage:
		return &babbage.BabbageProtocolParameters{KeyDeposit: kd, PoolDeposit: pd}
	case Conway:
		return &conway.ConwayProtocolParameters{KeyDeposit: kd, PoolDeposit: pd}
	default:
		p := &dijkstra.DijkstraProtocolParameters{}
		p.KeyDeposit, p.PoolDeposit = kd, pd
		return p
	}
}

// ConservationRule returns the era's UtxoValidateValueNotConservedUtxo.
func ConservationRule(e Era) common.UtxoValidationRuleFunc {
	switch e {
	case Shelley:
		return shelley.UtxoValidateValueNotConservedUtxo
	case Allegra:
		return allegra.UtxoValidateValueNotConservedUtxo
	case Mary:
		return mary.UtxoValidateValueNotConservedUtxo
	case Alonzo:
		return alonzo.UtxoValidateValueNotConservedUtxo
	case Babbage:
		return babbage.UtxoValidateValueNotConservedUtxo
	case Conway:
		return conway.UtxoValidateValueNotConservedUtxo
	default:
		return dijkstra.UtxoValidateValueNotConservedUtxo
	}
}

func RuleList(e Era) []common.UtxoValidationRuleFunc {
	switch e {
	case Shelley:
		return shelley.UtxoValidationRules
	case Allegra:
		return allegra.UtxoValidationRules
	case Mary:
		return mary.UtxoValidationRules
	case Alonzo:
		return alonzo.UtxoValidationRules
	case Babbage:
		return babbage.UtxoValidationRules
	case Conway:
		return conway.UtxoValidationRules
	default:
		return dijkstra.UtxoValidationRules
	}
}

var _ = bytes.Equal
