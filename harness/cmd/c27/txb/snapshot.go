package txb

import (
	"fmt"
	"math/big"
	"sort"
	"strings"

	"github.com/blinklabs-io/gouroboros/ledger/common"
)

// OutputState renders the value an output object currently holds (coin and
// every asset quantity, sorted) - read through the public accessors, so that
// two readings can be compared to see whether validation changed the object.
func OutputState(o common.TransactionOutput) string {
	if o == nil {
		return "<nil>"
	}
	var sb strings.Builder
	fmt.Fprintf(&sb, "coin=%s", o.Amount())
	if as := o.Assets(); as != nil {
		var es []string
		for _, p := range as.Policies() {
			for _, n := range as.Assets(p) {
				q := as.Asset(p, n)
				if q == nil {
					q = new(big.Int)
				}
				es = append(es, fmt.Sprintf("%x.%x=%s", p[:], n, q))
			}
		}
		sort.Strings(es)
		sb.WriteString(" " + strings.Join(es, ","))
	}
	return sb.String()
}

// Snapshot: the state of every output of the transaction, of every UTxO the
// mock ledger state holds for its inputs, and of the mint field.
func Snapshot(tx common.Transaction, m *Mock, t *Tx) []string {
	var s []string
	for i, o := range tx.Outputs() {
		s = append(s, fmt.Sprintf("output[%d] %s", i, OutputState(o)))
	}
	for i := range t.Inputs {
		if u, ok := m.Utxos[string(TxId(i))]; ok {
			s = append(s, fmt.Sprintf("utxo[%d] %s", i, OutputState(u.Output)))
		}
	}
	if mint := tx.AssetMint(); mint != nil {
		var es []string
		for _, p := range mint.Policies() {
			for _, n := range mint.Assets(p) {
				es = append(es, fmt.Sprintf("%x.%x=%s", p[:], n, mint.Asset(p, n)))
			}
		}
		sort.Strings(es)
		s = append(s, "mint "+strings.Join(es, ","))
	}
	return s
}

// Diff returns the first entry that differs ("" when equal).
func Diff(a, b []string) string {
	if len(a) != len(b) {
		return fmt.Sprintf("%d entries before, %d after", len(a), len(b))
	}
	for i := range a {
		if a[i] != b[i] {
			return fmt.Sprintf("before {%s} after {%s}", a[i], b[i])
		}
	}
	return ""
}
