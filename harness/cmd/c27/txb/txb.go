// Package txb builds Cardano transactions (Shelley..Dijkstra) as CBOR from an
// abstract description, using only vh.Item (no code from the repository), and
// provides a mock ledger state.  Shared by the C27 and C08 harnesses.
package txb

import (
	"fmt"
	"math/big"

	"verifharness/vh"
)

type Era int

const (
	Shelley Era = iota
	Allegra
	Mary
	Alonzo
	Babbage
	Conway
	Dijkstra
)

var EraNames = []string{"shelley", "allegra", "mary", "alonzo", "babbage", "conway", "dijkstra"}

func (e Era) String() string  { return EraNames[e] }
func (e Era) HasAssets() bool { return e >= Mary }

// Asset is one (policy, name, quantity) entry.  IntForm selects how the
// quantity is written on the wire (see QtyItem).
type Asset struct {
	Policy  []byte   `json:"policy"`
	Name    []byte   `json:"name"`
	Q       *big.Int `json:"q"`
	IntForm int      `json:"form,omitempty"`
}

type Value struct {
	Coin   uint64  `json:"coin"`
	Assets []Asset `json:"assets,omitempty"`
	// ForceArr writes [coin, {}] even when there are no assets
	ForceArr bool `json:"force_arr,omitempty"`
}

type Input struct {
	Resolved bool  `json:"resolved"`
	Val      Value `json:"val"`
}

// certificate kinds (the CBOR certificate type numbers)
const (
	CStakeReg      = 0
	CStakeDereg    = 1
	CStakeDeleg    = 2
	CPoolReg       = 3
	CPoolRetire    = 4
	CReg           = 7
	CDereg         = 8
	CVoteDeleg     = 9
	CStakeVoteDel  = 10
	CStakeRegDeleg = 11
	CVoteRegDeleg  = 12
	CStakeVoteReg  = 13
	CAuthHot       = 14
	CResignCold    = 15
	CRegDrep       = 16
	CDeregDrep     = 17
	CUpdateDrep    = 18
)

type Cert struct {
	Kind   int   `json:"kind"`
	Amount int64 `json:"amount,omitempty"` // deposit/refund carried by Conway certificates
	Pool   int   `json:"pool,omitempty"`   // pool index for CPoolReg / CPoolRetire
}

// reference input: script kind 0 none, 1 PlutusV1, 2 PlutusV2, 3 PlutusV3, 4 native, 5 = the UTxO has no Output at all
type RefInput struct {
	Resolved bool `json:"resolved"`
	Script   int  `json:"script"`
}

// pool oracle entries: see the Pool* constants in mock.go
type Tx struct {
	Era         Era        `json:"era"`
	Inputs      []Input    `json:"inputs"`
	Outputs     []Value    `json:"outputs"`
	Fee         uint64     `json:"fee"`
	Wdrls       []uint64   `json:"wdrls,omitempty"`
	Certs       []Cert     `json:"certs,omitempty"`
	Mint        []Asset    `json:"mint,omitempty"`
	HasMint     bool       `json:"has_mint,omitempty"`
	Proposals   []uint64   `json:"proposals,omitempty"`
	Donation    uint64     `json:"donation,omitempty"`
	Treasury    uint64     `json:"treasury,omitempty"`
	WitV1       bool       `json:"wit_v1,omitempty"`
	WitV2       bool       `json:"wit_v2,omitempty"`
	WitV3       bool       `json:"wit_v3,omitempty"`
	RefInputs   []RefInput `json:"refins,omitempty"`
	KeyDeposit  uint64     `json:"key_deposit"`
	PoolDeposit uint64     `json:"pool_deposit"`
	Pools       []int      `json:"pools,omitempty"` // oracle, indexed by pool index
	// encoding choices
	LegacyOut bool  `json:"legacy_out,omitempty"` // Babbage+: array-form outputs
	Reform    int64 `json:"reform,omitempty"`     // non-zero: seed for non-minimal header forms
	TagSets   bool  `json:"tag_sets,omitempty"`   // Conway+: tag 258 on sets
}

func PoolId(i int) []byte {
	b := make([]byte, 28)
	b[0] = 0x50
	b[27] = byte(i)
	b[26] = byte(i >> 8)
	return b
}

func TxId(i int) []byte {
	b := make([]byte, 32)
	b[0] = 0x77
	b[31] = byte(i)
	b[30] = byte(i >> 8)
	return b
}

func RefTxId(i int) []byte {
	b := TxId(i)
	b[0] = 0x88
	return b
}

func cred(i int) *vh.Item {
	h := make([]byte, 28)
	h[0] = 0xc0
	h[27] = byte(i)
	return vh.A(vh.U(0), vh.B(h))
}

func payAddr(i int) []byte {
	a := make([]byte, 29)
	a[0] = 0x61 // enterprise, key hash, network 1
	a[28] = byte(i)
	return a
}

func rewardAddr(i int) []byte {
	a := make([]byte, 29)
	a[0] = 0xe1
	a[1] = 0xaa
	a[28] = byte(i)
	a[27] = byte(i >> 8)
	return a
}

// integer forms for quantities
const (
	IMin   = 0 // shortest uint / nint
	IF8    = 1 // 8-byte argument
	IBig   = 2 // bignum tag 2/3, shortest magnitude
	IBigLZ = 3 // bignum with leading zero bytes
	IF4    = 4 // 4-byte argument when it fits, else 8
	IF2    = 5
	IF1    = 6
)

func magnitude(q *big.Int) (neg bool, mag *big.Int) {
	if q.Sign() >= 0 {
		return false, new(big.Int).Set(q)
	}
	m := new(big.Int).Neg(q)
	m.Sub(m, big.NewInt(1))
	return true, m
}

// QtyItem writes an integer of any size: uint/nint when the magnitude fits 64
// bits and the form allows, otherwise a bignum.
func QtyItem(q *big.Int, form int) *vh.Item {
	neg, mag := magnitude(q)
	if mag.IsUint64() && form != IBig && form != IBigLZ {
		n := mag.Uint64()
		k := vh.KUInt
		if neg {
			k = vh.KNInt
		}
		f := vh.MinForm(n)
		want := f
		switch form {
		case IF8:
			want = vh.F8
		case IF4:
			want = vh.F4
		case IF2:
			want = vh.F2
		case IF1:
			want = vh.F1
		}
		if want > f {
			f = want
		}
		return &vh.Item{K: k, F: f, N: n}
	}
	bs := mag.Bytes()
	if form == IBigLZ {
		bs = append([]byte{0, 0}, bs...)
	}
	t := uint64(2)
	if neg {
		t = 3
	}
	return vh.TagOf(t, vh.B(bs))
}

// MultiAssetItem groups assets by policy in first-occurrence order.
func MultiAssetItem(as []Asset) *vh.Item {
	var order []string
	groups := map[string][]Asset{}
	for _, a := range as {
		k := string(a.Policy)
		if _, ok := groups[k]; !ok {
			order = append(order, k)
		}
		groups[k] = append(groups[k], a)
	}
	var kvs []*vh.Item
	for _, p := range order {
		var inner []*vh.Item
		for _, a := range groups[p] {
			inner = append(inner, vh.B(a.Name), QtyItem(a.Q, a.IntForm))
		}
		kvs = append(kvs, vh.B([]byte(p)), vh.M(inner...))
	}
	return vh.M(kvs...)
}

func ValueItem(e Era, v Value) *vh.Item {
	if !e.HasAssets() || (len(v.Assets) == 0 && !v.ForceArr) {
		return vh.U(v.Coin)
	}
	return vh.A(vh.U(v.Coin), MultiAssetItem(v.Assets))
}

// OutputItem: script = reference script kind (Babbage+ map form only).
func OutputItem(e Era, idx int, v Value, legacy bool, script int) *vh.Item {
	addr := vh.B(payAddr(idx))
	if e >= Babbage && !legacy {
		kvs := []*vh.Item{vh.U(0), addr, vh.U(1), ValueItem(e, v)}
		if script != 0 {
			var inner *vh.Item
			switch script {
			case 1, 2, 3:
				inner = vh.A(vh.U(uint64(script)), vh.B([]byte{0x4e, 0x4d, 0x01, 0x00, 0x00, 0x33, 0x22, 0x20, 0x05, 0x12, 0x00, 0x12, 0x00, 0x11}))
			default:
				inner = vh.A(vh.U(0), vh.A(vh.U(1), vh.A())) // native: all []
			}
			kvs = append(kvs, vh.U(3), vh.TagOf(24, vh.B(inner.Enc())))
		}
		return vh.M(kvs...)
	}
	return vh.A(addr, ValueItem(e, v))
}

func CertItem(c Cert, idx int) *vh.Item {
	k := vh.U(uint64(c.Kind))
	amt := vh.I64(c.Amount)
	pool := vh.B(PoolId(c.Pool))
	drep := vh.A(vh.U(2)) // always abstain
	switch c.Kind {
	case CStakeReg, CStakeDereg:
		return vh.A(k, cred(idx))
	case CStakeDeleg:
		return vh.A(k, cred(idx), pool)
	case CPoolReg:
		vrf := make([]byte, 32)
		return vh.A(k, pool, vh.B(vrf), vh.U(1000), vh.U(340),
			vh.TagOf(30, vh.A(vh.U(1), vh.U(10))), vh.B(rewardAddr(idx)),
			vh.A(), vh.A(), vh.Null())
	case CPoolRetire:
		return vh.A(k, pool, vh.U(300))
	case CReg, CDereg:
		return vh.A(k, cred(idx), amt)
	case CVoteDeleg:
		return vh.A(k, cred(idx), drep)
	case CStakeVoteDel:
		return vh.A(k, cred(idx), pool, drep)
	case CStakeRegDeleg:
		return vh.A(k, cred(idx), pool, amt)
	case CVoteRegDeleg:
		return vh.A(k, cred(idx), drep, amt)
	case CStakeVoteReg:
		return vh.A(k, cred(idx), pool, drep, amt)
	case CAuthHot:
		return vh.A(k, cred(idx), cred(idx+100))
	case CResignCold:
		return vh.A(k, cred(idx), vh.Null())
	case CRegDrep:
		return vh.A(k, cred(idx), amt, vh.Null())
	case CDeregDrep:
		return vh.A(k, cred(idx), amt)
	case CUpdateDrep:
		return vh.A(k, cred(idx), vh.Null())
	}
	panic(fmt.Sprintf("txb: bad certificate kind %d", c.Kind))
}

func set(tag bool, xs ...*vh.Item) *vh.Item {
	if tag {
		return vh.TagOf(258, vh.A(xs...))
	}
	return vh.A(xs...)
}

// BodyItem renders the transaction body map.
func (t *Tx) BodyItem() *vh.Item {
	e := t.Era
	var kvs []*vh.Item
	var ins []*vh.Item
	for i := range t.Inputs {
		ins = append(ins, vh.A(vh.B(TxId(i)), vh.U(uint64(i%3))))
	}
	kvs = append(kvs, vh.U(0), set(t.TagSets && e >= Conway, ins...))
	var outs []*vh.Item
	for i, o := range t.Outputs {
		outs = append(outs, OutputItem(e, i, o, t.LegacyOut, 0))
	}
	kvs = append(kvs, vh.U(1), vh.A(outs...))
	kvs = append(kvs, vh.U(2), vh.U(t.Fee))
	if e == Shelley {
		kvs = append(kvs, vh.U(3), vh.U(1000000))
	}
	if len(t.Certs) > 0 {
		var cs []*vh.Item
		for i, c := range t.Certs {
			cs = append(cs, CertItem(c, i))
		}
		kvs = append(kvs, vh.U(4), set(t.TagSets && e >= Conway, cs...))
	}
	if len(t.Wdrls) > 0 {
		var ws []*vh.Item
		for i, w := range t.Wdrls {
			ws = append(ws, vh.B(rewardAddr(i)), vh.U(w))
		}
		kvs = append(kvs, vh.U(5), vh.M(ws...))
	}
	if e >= Mary && (t.HasMint || len(t.Mint) > 0) {
		kvs = append(kvs, vh.U(9), MultiAssetItem(t.Mint))
	}
	if e >= Babbage && len(t.RefInputs) > 0 {
		var rs []*vh.Item
		for i := range t.RefInputs {
			rs = append(rs, vh.A(vh.B(RefTxId(i)), vh.U(0)))
		}
		kvs = append(kvs, vh.U(18), set(t.TagSets && e >= Conway, rs...))
	}
	if e >= Conway {
		if len(t.Proposals) > 0 {
			var ps []*vh.Item
			for i, d := range t.Proposals {
				anchor := vh.A(vh.T("https://x.example"), vh.B(make([]byte, 32)))
				ps = append(ps, vh.A(vh.U(d), vh.B(rewardAddr(200+i)), vh.A(vh.U(6)), anchor))
			}
			kvs = append(kvs, vh.U(20), set(t.TagSets, ps...))
		}
		if t.Treasury > 0 {
			kvs = append(kvs, vh.U(21), vh.U(t.Treasury))
		}
		if t.Donation > 0 {
			kvs = append(kvs, vh.U(22), vh.U(t.Donation))
		}
	}
	return vh.M(kvs...)
}

func (t *Tx) WitnessItem() *vh.Item {
	var kvs []*vh.Item
	script := vh.B([]byte{0x4e, 0x4d, 0x01, 0x00, 0x00, 0x33, 0x22, 0x20, 0x05, 0x12, 0x00, 0x12, 0x00, 0x11})
	tag := t.TagSets && t.Era >= Conway
	if t.WitV1 && t.Era >= Alonzo {
		kvs = append(kvs, vh.U(3), set(tag, script))
	}
	if t.WitV2 && t.Era >= Babbage {
		kvs = append(kvs, vh.U(6), set(tag, script))
	}
	if t.WitV3 && t.Era >= Conway {
		kvs = append(kvs, vh.U(7), set(tag, script))
	}
	return vh.M(kvs...)
}

// Item is the whole transaction.
func (t *Tx) Item() *vh.Item {
	var it *vh.Item
	if t.Era >= Alonzo {
		it = vh.A(t.BodyItem(), t.WitnessItem(), vh.BoolItem(true), vh.Null())
	} else {
		it = vh.A(t.BodyItem(), t.WitnessItem(), vh.Null())
	}
	if t.Reform != 0 {
		r := vh.NewRng(uint64(t.Reform))
		it = vh.Reform(r, it, vh.ReformOpts{Ints: true, Prob: 25})
	}
	return it
}

func (t *Tx) Cbor() []byte { return t.Item().Enc() }
