package main

import (
	"fmt"
	"go/ast"
	"os"
	"sort"
	"strconv"
	"strings"
	"sync"

	"github.com/blinklabs-io/gouroboros/ledger"
	"github.com/blinklabs-io/gouroboros/ledger/allegra"
	"github.com/blinklabs-io/gouroboros/ledger/alonzo"
	"github.com/blinklabs-io/gouroboros/ledger/babbage"
	"github.com/blinklabs-io/gouroboros/ledger/byron"
	"github.com/blinklabs-io/gouroboros/ledger/conway"
	"github.com/blinklabs-io/gouroboros/ledger/dijkstra"
	"github.com/blinklabs-io/gouroboros/ledger/mary"
	"github.com/blinklabs-io/gouroboros/ledger/shelley"

	"verifharness/vh"
)

func repoDir() string {
	if d := os.Getenv("VERIF_REPO"); d != "" {
		return d
	}
	return "/repo"
}

type eraDecl struct {
	Name       string
	Id         uint64
	BlockTypes []uint64
	HeaderType uint64
	TxType     uint64
	HasPv      bool
	Min, Max   uint64
}

// eraDecls reads the constants each era package declares.
func eraDecls() []eraDecl {
	return []eraDecl{
		{byron.EraNameByron, byron.EraIdByron, []uint64{byron.BlockTypeByronEbb, byron.BlockTypeByronMain}, byron.BlockHeaderTypeByron, byron.TxTypeByron, false, 0, 0},
		{shelley.EraNameShelley, shelley.EraIdShelley, []uint64{shelley.BlockTypeShelley}, shelley.BlockHeaderTypeShelley, shelley.TxTypeShelley, true, shelley.MinProtocolVersionShelley, shelley.MaxProtocolVersionShelley},
		{allegra.EraNameAllegra, allegra.EraIdAllegra, []uint64{allegra.BlockTypeAllegra}, allegra.BlockHeaderTypeAllegra, allegra.TxTypeAllegra, true, allegra.MinProtocolVersionAllegra, allegra.MaxProtocolVersionAllegra},
		{mary.EraNameMary, mary.EraIdMary, []uint64{mary.BlockTypeMary}, mary.BlockHeaderTypeMary, mary.TxTypeMary, true, mary.MinProtocolVersionMary, mary.MaxProtocolVersionMary},
		{alonzo.EraNameAlonzo, alonzo.EraIdAlonzo, []uint64{alonzo.BlockTypeAlonzo}, alonzo.BlockHeaderTypeAlonzo, alonzo.TxTypeAlonzo, true, alonzo.MinProtocolVersionAlonzo, alonzo.MaxProtocolVersionAlonzo},
		{babbage.EraNameBabbage, babbage.EraIdBabbage, []uint64{babbage.BlockTypeBabbage}, babbage.BlockHeaderTypeBabbage, babbage.TxTypeBabbage, true, babbage.MinProtocolVersionBabbage, babbage.MaxProtocolVersionBabbage},
		{conway.EraNameConway, conway.EraIdConway, []uint64{conway.BlockTypeConway}, conway.BlockHeaderTypeConway, conway.TxTypeConway, true, conway.MinProtocolVersionConway, conway.MaxProtocolVersionConway},
		{dijkstra.EraNameDijkstra, dijkstra.EraIdDijkstra, []uint64{dijkstra.BlockTypeDijkstra}, dijkstra.BlockHeaderTypeDijkstra, dijkstra.TxTypeDijkstra, true, dijkstra.MinProtocolVersionDijkstra, dijkstra.MaxProtocolVersionDijkstra},
	}
}

// constants the switch in DetermineBlockType may mention, by source spelling
var constVal = map[string]uint64{
	"HeaderBodyLengthShelleyLike": ledger.HeaderBodyLengthShelleyLike,
	"HeaderBodyLengthBabbageLike": ledger.HeaderBodyLengthBabbageLike,
	"BlockTypeByronEbb":           ledger.BlockTypeByronEbb,
	"BlockTypeByronMain":          ledger.BlockTypeByronMain,
	"BlockTypeShelley":            ledger.BlockTypeShelley,
	"BlockTypeAllegra":            ledger.BlockTypeAllegra,
	"BlockTypeMary":               ledger.BlockTypeMary,
	"BlockTypeAlonzo":             ledger.BlockTypeAlonzo,
	"BlockTypeBabbage":            ledger.BlockTypeBabbage,
	"BlockTypeConway":             ledger.BlockTypeConway,
	"BlockTypeDijkstra":           ledger.BlockTypeDijkstra,
	"ProtoMajorShelley":           ledger.ProtoMajorShelley,
	"ProtoMajorAllegra":           ledger.ProtoMajorAllegra,
	"ProtoMajorMary":              ledger.ProtoMajorMary,
	"ProtoMajorAlonzo":            ledger.ProtoMajorAlonzo,
	"ProtoMajorBabbage":           ledger.ProtoMajorBabbage,
	"ProtoMajorConway":            ledger.ProtoMajorConway,
	"ProtoMajorDijkstra":          ledger.ProtoMajorDijkstra,
}

func init() {
	for _, e := range eraDecls() {
		if !e.HasPv {
			continue
		}
		pkg := strings.ToLower(e.Name)
		constVal[pkg+".MinProtocolVersion"+e.Name] = e.Min
		constVal[pkg+".MaxProtocolVersion"+e.Name] = e.Max
		constVal[pkg+".BlockType"+e.Name] = e.BlockTypes[0]
	}
}

func exprVal(e ast.Expr) (uint64, error) {
	switch x := e.(type) {
	case *ast.BasicLit:
		return strconv.ParseUint(x.Value, 0, 64)
	case *ast.Ident:
		if v, ok := constVal[x.Name]; ok {
			return v, nil
		}
		return 0, fmt.Errorf("unknown constant %s", x.Name)
	case *ast.SelectorExpr:
		if p, ok := x.X.(*ast.Ident); ok {
			if v, ok := constVal[p.Name+"."+x.Sel.Name]; ok {
				return v, nil
			}
			return 0, fmt.Errorf("unknown constant %s.%s", p.Name, x.Sel.Name)
		}
	case *ast.ParenExpr:
		return exprVal(x.X)
	}
	return 0, fmt.Errorf("unsupported expression %T", e)
}

type rangeCase struct{ Min, Max, Ret uint64 }
type layoutDecl struct {
	Len     uint64
	PvIndex uint64
	Nested  bool
	Cases   []rangeCase
}

func identName(e ast.Expr) string {
	if id, ok := e.(*ast.Ident); ok {
		return id.Name
	}
	return ""
}

func sortedMap(m map[uint]uint) [][2]uint64 {
	var out [][2]uint64
	for k, v := range m {
		out = append(out, [2]uint64{uint64(k), uint64(v)})
	}
	sort.Slice(out, func(i, j int) bool { return out[i][0] < out[j][0] })
	return out
}

func coqPairs(ps [][2]uint64) string {
	var xs []string
	for _, p := range ps {
		xs = append(xs, vh.Pair(vh.N(p[0]), vh.N(p[1])))
	}
	return vh.List(xs)
}

func nlist(xs []uint64) string {
	var out []string
	for _, x := range xs {
		out = append(out, vh.N(x))
	}
	return vh.List(out)
}

func gen(out string) error {
	var sb strings.Builder
	sb.WriteString("(* GENERATED by harness/cmd/c36 gen from the Go constants, the source of\n   DetermineBlockType and the observed behaviour of the entry points - do not edit *)\n")
	sb.WriteString("From Coq Require Import String.\nFrom V Require Import Lib.Base C36.Types.\nLocal Open Scope N_scope.\nLocal Open Scope string_scope.\n\n")
	sb.WriteString("Definition eras : list era := [\n")
	eds := eraDecls()
	for i, e := range eds {
		pv := "None"
		if e.HasPv {
			pv = "(Some " + vh.Pair(vh.N(e.Min), vh.N(e.Max)) + ")"
		}
		sep := ";"
		if i == len(eds)-1 {
			sep = ""
		}
		fmt.Fprintf(&sb, "  mkera %s %s %s %s %s %s%s\n", vh.Str(e.Name), vh.N(e.Id), nlist(e.BlockTypes), vh.N(e.HeaderType), vh.N(e.TxType), pv, sep)
	}
	sb.WriteString("].\n\n")
	lds, src, why := armsAndSource()
	if src == "syntax" {
		sb.WriteString("(* DetermineBlockType (ledger/verify_block.go), arm by arm in source order; the reading agrees with the\n   real function on every probed header (see arms.go) *)\n")
	} else {
		fmt.Fprintf(&sb, "(* DetermineBlockType: no syntactic form recognised (%s).\n   OBSERVED step function: the real function swept over protocol major 0..%d for header body lengths 0..%d;\n   one arm per length that ever answers, one case per maximal run of versions with the same answer *)\n", strings.ReplaceAll(why, "*)", "* )"), probeLimit, probeMaxLen)
	}
	fmt.Fprintf(&sb, "Definition arms_source : string := %s.\nDefinition probe_limit : N := %s.\nDefinition probe_max_len : N := %s.\n", vh.Str(src), vh.N(probeLimit), vh.N(probeMaxLen))
	sb.WriteString("Definition layouts : list layout := [\n")
	for i, l := range lds {
		var cs []string
		for _, c := range l.Cases {
			cs = append(cs, fmt.Sprintf("(%s, %s, %s)", vh.N(c.Min), vh.N(c.Max), vh.N(c.Ret)))
		}
		sep := ";"
		if i == len(lds)-1 {
			sep = ""
		}
		fmt.Fprintf(&sb, "  mklayout %s %s %s %s%s\n", vh.N(l.Len), vh.N(l.PvIndex), vh.Bool(l.Nested), vh.List(cs), sep)
	}
	sb.WriteString("].\n\n")
	fmt.Fprintf(&sb, "(* ledger/era.go *)\nDefinition header_to_block : list (N * N) := %s.\n", coqPairs(sortedMap(ledger.BlockHeaderToBlockTypeMap)))
	fmt.Fprintf(&sb, "Definition block_to_header : list (N * N) := %s.\n\n", coqPairs(sortedMap(ledger.BlockToBlockHeaderTypeMap)))

	// observed dispatch
	fx, err := loadFixtures()
	if err != nil {
		return err
	}
	sb.WriteString("(* fixture name, era id of the chain era the fixture was produced in *)\nDefinition fixtures : list (string * N) := [")
	for i, f := range fx {
		if i > 0 {
			sb.WriteString("; ")
		}
		sb.WriteString(vh.Pair(vh.Str(f.Name), vh.N(f.EraId)))
	}
	sb.WriteString("].\n\n")
	ids := probeIds()
	sb.WriteString("(* NewBlockFromCbor(type id, fixture block): None = error *)\nDefinition block_dispatch : list (N * string * option obs_block) := [\n")
	first := true
	for _, t := range ids {
		for _, f := range fx {
			o := obsBlock(uint(t), f.Block)
			s := "None"
			if o != nil {
				s = fmt.Sprintf("(Some (mkob %s %s %s))", vh.N(o.Type), vh.N(o.Era), vh.N(o.HdrEra))
			}
			if !first {
				sb.WriteString(";\n")
			}
			first = false
			fmt.Fprintf(&sb, "  (%s, %s, %s)", vh.N(t), vh.Str(f.Name), s)
		}
	}
	sb.WriteString("].\n\n(* NewBlockFromCborWithOffsets(type id, fixture block).Block, each row (type id) observed in a FRESH process\n   that made no other call: the history-free reference *)\nDefinition offsets_dispatch : list (N * string * option obs_block) := [\n")
	first = true
	rows := make([]map[string]obsAny, len(ids))
	rowErr := make([]error, len(ids))
	var wg sync.WaitGroup
	for i, t := range ids {
		wg.Add(1)
		go func(i int, t uint64) {
			defer wg.Done()
			rows[i], rowErr[i] = fresh("NewBlockFromCborWithOffsets", t, "")
		}(i, t)
	}
	wg.Wait()
	for i, t := range ids {
		row, err := rows[i], rowErr[i]
		if err != nil {
			return fmt.Errorf("fresh-process observation failed: %v", err)
		}
		for _, f := range fx {
			o := row[f.Name]
			s := "None"
			if o.Ok {
				// header era: Block.Header().Era() - re-derived in process below is not history-free; use the block era
				s = fmt.Sprintf("(Some (mkob %s %s %s))", vh.N(*o.Type), vh.N(*o.Era), vh.N(*o.Era))
			}
			if !first {
				sb.WriteString(";\n")
			}
			first = false
			fmt.Fprintf(&sb, "  (%s, %s, %s)", vh.N(t), vh.Str(f.Name), s)
		}
	}
	sb.WriteString("].\n\n(* NewBlockHeaderFromCbor(type id, fixture header): Some (Era().Id) *)\nDefinition header_dispatch : list (N * string * option N) := [\n")
	first = true
	for _, t := range ids {
		for _, f := range fx {
			e, ok := obsHeader(uint(t), f.Header)
			if !first {
				sb.WriteString(";\n")
			}
			first = false
			fmt.Fprintf(&sb, "  (%s, %s, %s)", vh.N(t), vh.Str(f.Name), vh.Opt(vh.N(e), ok))
		}
	}
	sb.WriteString("].\n\n(* NewTransactionFromCbor(tx type id, first transaction of the fixture): Some (Type()) *)\nDefinition tx_dispatch : list (N * string * option N) := [\n")
	first = true
	for _, t := range ids {
		for _, f := range fx {
			if f.Tx == nil {
				continue
			}
			ty, ok := obsTx(uint(t), f.Tx)
			if !first {
				sb.WriteString(";\n")
			}
			first = false
			fmt.Fprintf(&sb, "  (%s, %s, %s)", vh.N(t), vh.Str(f.Name), vh.Opt(vh.N(ty), ok))
		}
	}
	sb.WriteString("].\n\n(* GetEraById(id) = (Id, Name) *)\nDefinition era_by_id : list (N * (N * string)) := [")
	for i := 0; i <= 12; i++ {
		e := ledger.GetEraById(uint8(i))
		if i > 0 {
			sb.WriteString("; ")
		}
		fmt.Fprintf(&sb, "(%s, (%s, %s))", vh.N(uint64(i)), vh.N(uint64(e.Id)), vh.Str(e.Name))
	}
	sb.WriteString("].\n")
	if out == "" {
		fmt.Print(sb.String())
		return nil
	}
	return vh.WriteIfChanged(out, sb.String())
}
