package main

import (
	"encoding/json"
	"fmt"
	"os"
	"strings"

	"github.com/blinklabs-io/gouroboros/ledger"

	"verifharness/vh"
)

const header = `From Coq Require Import String.
From V Require Import Lib.Base C36.Model.
Open Scope N_scope.`

type rcase struct {
	Len    int     `json:"header_body_fields"`
	PvKind string  `json:"pv_kind"` // uint | negative | text | empty-array | not-array
	Pv     uint64  `json:"pv"`
	Header string  `json:"header_cbor"`
	Got    *uint64 `json:"determined_block_type"` // nil = error
}

// mkHeader builds [body, signature] with `n` body fields; the protocol
// version sits where a header of that many fields carries it (field 13 for
// the 15-field Shelley..Alonzo header, field 9 = [major, minor] for the
// 10-field Babbage+ header); other lengths get it at both places when there
// is room.
func mkHeader(n int, kind string, pv uint64) *vh.Item {
	body := make([]*vh.Item, n)
	for i := range body {
		body[i] = vh.U(uint64(100 + i))
	}
	var major *vh.Item
	switch kind {
	case "uint":
		major = vh.U(pv)
	case "uint-wide":
		major = &vh.Item{K: vh.KUInt, F: vh.F8, N: pv}
	case "uint-f2":
		major = &vh.Item{K: vh.KUInt, F: vh.F2, N: pv}
	case "negative":
		major = vh.NI(pv)
	case "text":
		major = vh.T("7")
	default:
		major = vh.U(pv)
	}
	if n > 13 {
		body[13] = major
	}
	if n > 9 && n != 15 {
		switch kind {
		case "empty-array":
			body[9] = vh.A()
		case "not-array":
			body[9] = vh.U(pv)
		default:
			body[9] = vh.A(major, vh.U(0))
		}
	}
	return vh.A(vh.A(body...), vh.B(make([]byte, 8)))
}

// nativeLen is the header layout an era's blocks really use (Cardano CDDL:
// Shelley..Alonzo headers have 15 body fields, Babbage on 10).
var nativeLen = map[string]int{"Shelley": 15, "Allegra": 15, "Mary": 15, "Alonzo": 15, "Babbage": 10, "Conway": 10, "Dijkstra": 10}

func determineCase(c *vh.Ctx, cf *vh.CaseFile, n int, kind string, pv uint64) {
	h := mkHeader(n, kind, pv)
	enc := h.Enc()
	rc := rcase{Len: n, PvKind: kind, Pv: pv, Header: vh.Hex(enc)}
	c.Begin(rc)
	var got uint
	var err error
	p, pval := vh.Recover(func() { got, err = ledger.DetermineBlockType(enc) })
	isUint := kind == "uint" || kind == "uint-wide"
	c.Res.Count(fmt.Sprintf("%d/%s/%d", n, kind, pv), (n == 10 || n == 15) && isUint, fmt.Sprintf("len%d/%s", n, kind))
	if p {
		c.Res.Violate("monitor", fmt.Sprintf("determine-panic-len%d-%s", n, kind), fmt.Sprintf("DetermineBlockType panicked: %v", pval), rc)
		return
	}
	if err == nil {
		g := uint64(got)
		rc.Got = &g
	}
	// ---- monitor: the property statement on the declared ranges
	decls := eraDecls()
	if err == nil {
		var owner *eraDecl
		for i := range decls {
			for _, bt := range decls[i].BlockTypes {
				if bt == uint64(got) {
					owner = &decls[i]
				}
			}
		}
		switch {
		case !isUint:
			c.Res.Violate("monitor", fmt.Sprintf("determine-accepts-%s-version-len%d", kind, n), fmt.Sprintf("DetermineBlockType returned %d for a header whose protocol version is %s", got, kind), rc)
		case owner == nil:
			c.Res.Violate("monitor", fmt.Sprintf("determine-returns-unowned-type-%d", got), fmt.Sprintf("len=%d pv=%d -> block type %d which no era declares", n, pv, got), rc)
		case !owner.HasPv || pv < owner.Min || pv > owner.Max:
			c.Res.Violate("monitor", fmt.Sprintf("determine-len%d-pv%d-outside-%s-range", n, pv, owner.Name), fmt.Sprintf("len=%d pv=%d -> %s (type %d) whose declared range is [%d,%d]", n, pv, owner.Name, got, owner.Min, owner.Max), rc)
		default:
			for i := range decls {
				o := &decls[i]
				if o.Id != owner.Id && o.HasPv && pv >= o.Min && pv <= o.Max {
					c.Res.Violate("monitor", fmt.Sprintf("pv%d-in-two-eras-%s-%s", pv, owner.Name, o.Name), fmt.Sprintf("pv=%d is inside the declared ranges of both %s [%d,%d] and %s [%d,%d]", pv, owner.Name, owner.Min, owner.Max, o.Name, o.Min, o.Max), rc)
				}
			}
		}
	} else if isUint {
		for i := range decls {
			o := &decls[i]
			if o.HasPv && pv >= o.Min && pv <= o.Max && nativeLen[o.Name] == n {
				c.Res.Violate("monitor", fmt.Sprintf("determine-len%d-pv%d-%s-not-dispatched", n, pv, o.Name), fmt.Sprintf("len=%d pv=%d is a %s header by the declared range [%d,%d] but DetermineBlockType fails: %v", n, pv, o.Name, o.Min, o.Max, err), rc)
			}
		}
	}
	pvOpt := "None"
	if isUint {
		pvOpt = "(Some " + vh.N(pv) + ")"
	}
	gotOpt := "None"
	if rc.Got != nil {
		gotOpt = "(Some " + vh.N(*rc.Got) + ")"
	}
	if n <= 9 && kind != "uint" {
		return // no version field to vary
	}
	cf.Add(fmt.Sprintf("(mkcase %s %s %s)", vh.N(uint64(n)), pvOpt, gotOpt), rc)
	if (n == 10 || n == 15) && isUint && rc.Got != nil {
		c.Res.Sample(map[string]any{"header_body_fields": n, "pv": pv, "block_type": got})
	}
}

// fixtureMonitor decodes every real block through every entry point and
// checks that they all tell the same story.
func fixtureMonitor(c *vh.Ctx) error {
	fx, err := loadFixtures()
	if err != nil {
		return err
	}
	decls := eraDecls()
	// the third clause, directly: decoding ANY fixture as type T either fails or
	// yields a block/header/transaction that reports T and the era owning T
	ownerOf := func(t uint64) *eraDecl {
		for i := range decls {
			for _, bt := range decls[i].BlockTypes {
				if bt == t {
					return &decls[i]
				}
			}
		}
		return nil
	}
	for _, t := range probeIds() {
		for _, f := range fx {
			rp := map[string]any{"entry_point": "NewBlockFromCbor", "type_id": t, "fixture": f.Name}
			c.Res.Count(fmt.Sprintf("matrix/%d/%s", t, f.Name), false, "matrix")
			if o := obsBlock(uint(t), f.Block); o != nil {
				ow := ownerOf(t)
				if o.Type != t || ow == nil || o.Era != ow.Id || o.HdrEra != ow.Id {
					c.Res.Violate("monitor", fmt.Sprintf("decode-as-%d-of-%s-block-reports-type-%d-era-%d", t, f.Name, o.Type, o.Era),
						fmt.Sprintf("NewBlockFromCbor(%d, %s block) succeeds and reports Type()=%d Era().Id=%d header era %d", t, f.Name, o.Type, o.Era, o.HdrEra), rp)
				}
			}
			if e, ok := obsHeader(uint(t), f.Header); ok {
				ow := ownerOf(t)
				if ow == nil || e != ow.Id {
					rp["entry_point"] = "NewBlockHeaderFromCbor"
					c.Res.Violate("monitor", fmt.Sprintf("header-as-%d-of-%s-reports-era-%d", t, f.Name, e),
						fmt.Sprintf("NewBlockHeaderFromCbor(%d, %s header) succeeds and reports Era().Id=%d", t, f.Name, e), rp)
				}
			}
			if f.Tx != nil {
				if ty, ok := obsTx(uint(t), f.Tx); ok && ty != t {
					rp["entry_point"] = "NewTransactionFromCbor"
					c.Res.Violate("monitor", fmt.Sprintf("tx-as-%d-of-%s-reports-type-%d", t, f.Name, ty),
						fmt.Sprintf("NewTransactionFromCbor(%d, first %s transaction) succeeds and reports Type()=%d", t, f.Name, ty), rp)
				}
			}
		}
	}
	for _, f := range fx {
		d := decls[f.EraId] // eraDecls is ordered by era id 0..7
		key := func(s string) string { return s + "-" + f.Name }
		c.Res.Count("fixture/"+f.Name, true, "fixture")
		if d.Id != f.EraId {
			c.Res.Violate("monitor", key("era-id-changed"), fmt.Sprintf("era %s declares id %d, the Cardano era index is %d", d.Name, d.Id, f.EraId), f.Name)
		}
		okType := false
		for _, bt := range d.BlockTypes {
			if bt == uint64(f.BlockType) {
				okType = true
			}
		}
		if !okType {
			c.Res.Violate("monitor", key("block-type-changed"), fmt.Sprintf("era %s declares block types %v, the hard-fork combinator index of this block is %d", d.Name, d.BlockTypes, f.BlockType), f.Name)
		}
		p, pv := vh.Recover(func() {
			blk, err := ledger.NewBlockFromCbor(f.BlockType, f.Block)
			if err != nil {
				c.Res.Violate("monitor", key("block-undecodable"), fmt.Sprintf("NewBlockFromCbor(%d) fails on the %s fixture: %v", f.BlockType, f.Name, err), f.Name)
				return
			}
			if uint(blk.Type()) != f.BlockType {
				c.Res.Violate("monitor", key("block-type-reported"), fmt.Sprintf("decoded as type %d, Type() = %d", f.BlockType, blk.Type()), f.Name)
			}
			if uint64(blk.Era().Id) != f.EraId || blk.Era().Name != d.Name {
				c.Res.Violate("monitor", key("block-era-reported"), fmt.Sprintf("decoded as type %d (%s), Era() = %v", f.BlockType, d.Name, blk.Era()), f.Name)
			}
			if blk.Header().Era() != blk.Era() {
				c.Res.Violate("monitor", key("header-era-differs-from-block"), fmt.Sprintf("Block.Era()=%v Header().Era()=%v", blk.Era(), blk.Header().Era()), f.Name)
			}
			if ledger.GetEraById(blk.Era().Id) != blk.Era() {
				c.Res.Violate("monitor", key("get-era-by-id"), fmt.Sprintf("GetEraById(%d) = %v, block era %v", blk.Era().Id, ledger.GetEraById(blk.Era().Id), blk.Era()), f.Name)
			}
			hdr, err := ledger.NewBlockHeaderFromCbor(f.BlockType, f.Header)
			if err != nil {
				c.Res.Violate("monitor", key("header-undecodable"), fmt.Sprintf("NewBlockHeaderFromCbor(%d): %v", f.BlockType, err), f.Name)
			} else if hdr.Era() != blk.Era() {
				c.Res.Violate("monitor", key("header-entry-point-era"), fmt.Sprintf("NewBlockHeaderFromCbor(%d).Era() = %v, block era %v", f.BlockType, hdr.Era(), blk.Era()), f.Name)
			}
			if f.EraId >= 1 {
				// Not part of the property (it only asks that the inferred type is
				// consistent with the declared ranges): a real header carries the
				// version its producer signals, which near a hard fork is already the
				// next era's.  Recorded as an observation.
				dt, err := ledger.DetermineBlockType(f.Header)
				if err != nil || dt != f.BlockType {
					c.Res.Notes = append(c.Res.Notes, fmt.Sprintf("observation (outside C36): DetermineBlockType(real %s header) = %d, err=%v; the block is type %d", f.Name, dt, err, f.BlockType))
				}
				ht, ok := ledger.BlockToBlockHeaderTypeMap[f.BlockType]
				if !ok || uint64(ht) != f.EraId {
					c.Res.Violate("monitor", key("block-to-header-map"), fmt.Sprintf("BlockToBlockHeaderTypeMap[%d] = %d,%v; era id is %d", f.BlockType, ht, ok, f.EraId), f.Name)
				}
				bt, ok := ledger.BlockHeaderToBlockTypeMap[uint(f.EraId)]
				if !ok || bt != f.BlockType {
					c.Res.Violate("monitor", key("header-to-block-map"), fmt.Sprintf("BlockHeaderToBlockTypeMap[%d] = %d,%v; block type is %d", f.EraId, bt, ok, f.BlockType), f.Name)
				}
				// the header decoded via the map round trip is the same era
				if ok {
					h2, err := ledger.NewBlockHeaderFromCbor(bt, f.Header)
					if err != nil || h2.Era() != blk.Era() {
						c.Res.Violate("monitor", key("header-via-map"), fmt.Sprintf("header decoded as BlockHeaderToBlockTypeMap[era]=%d: %v", bt, err), f.Name)
					}
				}
			}
			for i, tx := range blk.Transactions() {
				if uint64(tx.Type()) != d.TxType {
					c.Res.Violate("monitor", key("tx-type-in-block"), fmt.Sprintf("transaction %d of the %s block reports Type()=%d, era tx type %d", i, f.Name, tx.Type(), d.TxType), f.Name)
					break
				}
				t2, err := ledger.NewTransactionFromCbor(uint(d.TxType), tx.Cbor())
				if err != nil || uint64(t2.Type()) != d.TxType || t2.Hash() != tx.Hash() {
					c.Res.Violate("monitor", key("tx-entry-point"), fmt.Sprintf("NewTransactionFromCbor(%d) on transaction %d of the block: %v", d.TxType, i, err), f.Name)
					break
				}
				c.Res.Evaluations++
			}
		})
		if p {
			c.Res.Violate("monitor", key("fixture-panic"), fmt.Sprintf("panic: %v", pv), f.Name)
		}
	}
	return nil
}

func run(c *vh.Ctx) error {
	c.Res.Rule = "synthetic headers [body, sig] with 0..20 body fields, protocol major 0..64 (quick) / 0..300 (thorough) plus 2^8, 2^16, 2^32, 2^63, 2^64-1 and random, as a minimal or 8-byte unsigned integer, a negative integer, a text string, an empty version array or a non-array, in both header layouts; plus every real block fixture (Byron main, synthetic EBB, Shelley..Conway mainnet, Dijkstra testnet) through NewBlockFromCbor, NewBlockFromCborWithOffsets, NewBlockHeaderFromCbor, NewTransactionFromCbor, DetermineBlockType, both maps and GetEraById; plus a history class: every entry point on every fixture with every ordered pair (t1, t2) of type ids 0..9 in one process - the second answer must be that of a fresh process. Distinct by (length, kind, version); non-trivial = a 10- or 15-field header with an unsigned version."
	c.Res.Modelled = []string{
		"Block.Type()/Era() being constants of the Go type chosen by the switch is observed on fixtures (Gen.block_dispatch), not derived from the source",
		"CBOR decoding of the header into `any` is not modelled: the model receives the number of body fields and the version field's value",
	}
	_, src, why := armsAndSource()
	if src == "probe" {
		c.Res.Notes = append(c.Res.Notes, fmt.Sprintf("arms_source = probe: no syntactic form of DetermineBlockType was recognised (%s); Gen.layouts is the OBSERVED step function (real function swept over versions 0..%d, header body lengths 0..%d). C36_unique / C36_total_on_known are then statements about that observed function; for the implementation they hold for versions <= %d, and for larger versions only under the explicit premise of C36_unique_probe (no answer above the probed range / for longer bodies).", why, probeLimit, probeMaxLen, probeLimit))
		c.Res.Modelled = append(c.Res.Modelled, "arms_source = probe: DetermineBlockType is represented by its observed step function on versions 0..65535 x lengths 0..32, not by a reading of its source")
	} else {
		c.Res.Notes = append(c.Res.Notes, "arms_source = syntax: Gen.layouts was read off the source of DetermineBlockType and agrees with the real function on every probed header (lengths 0..32 x versions 0..1023, arms' lengths x versions 0..65535)")
	}
	cf := c.NewCaseFile("c36", header)
	cf.SetShardSize(400)
	if c.Replay != "" {
		b, err := os.ReadFile(c.Replay)
		if err != nil {
			return err
		}
		var rp struct {
			Replay json.RawMessage `json:"replay"`
		}
		if err := json.Unmarshal(b, &rp); err != nil {
			return err
		}
		var rc rcase
		if json.Unmarshal(rp.Replay, &rc) == nil && rc.Header != "" {
			determineCase(c, cf, rc.Len, rc.PvKind, rc.Pv)
			cf.Flush()
			return nil
		}
		// a fixture-level finding: re-run the fixture monitor
		var hr hrep
		if json.Unmarshal(rp.Replay, &hr) == nil && hr.Entry != "" {
			fx, err := loadFixtures()
			if err != nil {
				return err
			}
			hf := c.NewCaseFile("c36hist", strings.Replace(header, "Open Scope N_scope.", "Open Scope string_scope.\nOpen Scope N_scope.", 1))
			hf.Func, hf.Type = "hist_mismatches", "hcase"
			for ei, e := range entries {
				for fi := range fx {
					if e == hr.Entry && fx[fi].Name == hr.Fixture {
						historyPair(c, hf, ei, &fx[fi], hr.Prev, hr.T, true)
					}
				}
			}
			hf.Flush()
			return nil
		}
		return fixtureMonitor(c)
	}
	if err := fixtureMonitor(c); err != nil {
		return err
	}
	hf := c.NewCaseFile("c36hist", strings.Replace(header, "Open Scope N_scope.", "Open Scope string_scope.\nOpen Scope N_scope.", 1))
	hf.Func, hf.Type = "hist_mismatches", "hcase"
	hf.SetShardSize(400)
	if err := historyMonitor(c, hf); err != nil {
		return err
	}
	hf.Flush()
	maxPv := uint64(c.Pick(64, 300))
	extra := []uint64{255, 256, 65535, 65536, 1 << 32, 1<<63 - 1, 1 << 63, ^uint64(0) - 1, ^uint64(0)}
	for i := 0; i < c.Pick(10, 200); i++ {
		extra = append(extra, c.Rng.Boundary())
	}
	for _, n := range []int{15, 10} {
		for pv := uint64(0); pv <= maxPv; pv++ {
			determineCase(c, cf, n, "uint", pv)
		}
		for _, pv := range extra {
			determineCase(c, cf, n, "uint", pv)
		}
		for pv := uint64(0); pv <= 16; pv++ {
			determineCase(c, cf, n, "uint-wide", pv)
			determineCase(c, cf, n, "negative", pv)
		}
		determineCase(c, cf, n, "text", 7)
	}
	determineCase(c, cf, 10, "empty-array", 7)
	determineCase(c, cf, 10, "not-array", 7)
	for _, n := range []int{0, 1, 2, 8, 9, 11, 12, 13, 14, 16, 17, 20} {
		for _, pv := range []uint64{0, 2, 4, 5, 7, 9, 12, 13, 14} {
			determineCase(c, cf, n, "uint", pv)
		}
	}
	cf.Flush()
	return nil
}
