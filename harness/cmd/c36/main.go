// C36 - era dispatch is consistent across every entry point.
package main

import (
	"encoding/json"
	"fmt"
	"os"
	"os/exec"
	"strconv"

	"verifharness/vh"
)

// `<bin> fresh <entry> <type id> [fixture]`: ONE call per fixture in a process
// that has called nothing else (no tx extraction either, except for the
// transaction entry point) - the history-free reference observation.
func freshMain() {
	entry := os.Args[2]
	t, _ := strconv.ParseUint(os.Args[3], 10, 64)
	fx, err := loadFixturesOpt(entry == "NewTransactionFromCbor")
	if err != nil {
		fmt.Fprintln(os.Stderr, err)
		os.Exit(3)
	}
	out := map[string]obsAny{}
	for i := range fx {
		if len(os.Args) > 4 && fx[i].Name != os.Args[4] {
			continue
		}
		out[fx[i].Name] = callEntry(entry, uint(t), &fx[i])
	}
	json.NewEncoder(os.Stdout).Encode(out)
}

// fresh runs this binary as a new process.
func fresh(entry string, t uint64, fixture string) (map[string]obsAny, error) {
	exe, err := os.Executable()
	if err != nil {
		return nil, err
	}
	args := []string{"fresh", entry, strconv.FormatUint(t, 10)}
	if fixture != "" {
		args = append(args, fixture)
	}
	cmd := exec.Command(exe, args...)
	cmd.Env = os.Environ()
	b, err := cmd.Output()
	if err != nil {
		return nil, err
	}
	var out map[string]obsAny
	return out, json.Unmarshal(b, &out)
}

func main() {
	if len(os.Args) >= 4 && os.Args[1] == "fresh" {
		freshMain()
		return
	}
	vh.Main(vh.Runner{Property: "C36", Gen: gen, Run: run})
}
