// C36 - era dispatch is consistent across every entry point.
package main

import "verifharness/vh"

func main() { vh.Main(vh.Runner{Property: "C36", Gen: gen, Run: run}) }
