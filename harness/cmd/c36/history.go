package main

// History class: what an entry point reports for (type id t, bytes) must not
// depend on which type ids the same bytes were decoded under earlier in the
// process.  For every entry point, fixture and ordered pair (t1, t2) of type
// ids some era owns (plus one unowned id), call with t1 and then with t2.
//
// Monitor (the property itself): a successful call with t reports t and the
// era owning t, and the same Go type / hash as the reference.  Reference =
// the first call made with (entry, t, fixture) before any other type was
// tried on those bytes at that entry point, or - when a deviation is seen - a
// FRESH process; a deviation that disappears in the fresh process is filed as
// dispatch-depends-on-history:<entry>:<t1>-><t2>.
// Correspondence: the second observation against the cell of the Gen.v table.

import (
	"fmt"

	"verifharness/vh"
)

type hrep struct {
	Entry   string `json:"entry_point"`
	Fixture string `json:"fixture"`
	Prev    uint64 `json:"first_type_id"`
	T       uint64 `json:"second_type_id"`
	Got     obsAny `json:"second_call"`
	Fresh   obsAny `json:"fresh_process"`
}

func optU(p *uint64) string {
	if p == nil {
		return "None"
	}
	return "(Some " + vh.N(*p) + ")"
}

func historyPair(c *vh.Ctx, hf *vh.CaseFile, entryIdx int, f *fixture, t1, t2 uint64, emit bool) {
	entry := entries[entryIdx]
	decls := eraDecls()
	first := callEntry(entry, uint(t1), f)
	second := callEntry(entry, uint(t2), f)
	rp := hrep{Entry: entry, Fixture: f.Name, Prev: t1, T: t2, Got: second}
	c.Res.Count(fmt.Sprintf("hist/%s/%s/%d/%d", entry, f.Name, t1, t2), first.Ok && second.Ok, "history/"+entry)
	bad := ""
	if second.Ok {
		var owner *eraDecl
		for i := range decls {
			if entry == "NewTransactionFromCbor" {
				if decls[i].TxType == t2 {
					owner = &decls[i]
				}
				continue
			}
			for _, bt := range decls[i].BlockTypes {
				if bt == t2 {
					owner = &decls[i]
				}
			}
		}
		switch {
		case owner == nil:
			bad = fmt.Sprintf("succeeds for type id %d which no era owns", t2)
		case second.Type != nil && *second.Type != t2:
			bad = fmt.Sprintf("reports Type()=%d", *second.Type)
		case second.Era != nil && *second.Era != owner.Id:
			bad = fmt.Sprintf("reports Era().Id=%d, type %d belongs to era %d", *second.Era, t2, owner.Id)
		}
	}
	if bad != "" || (first.Ok && t1 != t2) {
		// compare with a process that has seen nothing else (only when something is at stake)
		if bad != "" {
			if fr, err := fresh(entry, t2, f.Name); err == nil {
				rp.Fresh = fr[f.Name]
				if !rp.Fresh.same(second) {
					c.Res.Violate("monitor", fmt.Sprintf("dispatch-depends-on-history:%s:%d->%d", entry, t1, t2),
						fmt.Sprintf("%s(%d, %s) after %s(%d, same bytes) in one process: %s; in a fresh process: %s", entry, t2, f.Name, entry, t1, second, rp.Fresh), rp)
					bad = ""
				}
			}
		}
	}
	if bad != "" {
		c.Res.Violate("monitor", fmt.Sprintf("decode-as-%d-of-%s-via-%s", t2, f.Name, entry),
			fmt.Sprintf("%s(%d, %s) %s (%s)", entry, t2, f.Name, bad, second), rp)
	}
	if emit || (first.Ok && second.Ok) {
		hf.Add(fmt.Sprintf("(mkh %s %s %s %s %s %s)", vh.N(uint64(entryIdx)), vh.N(t1), vh.N(t2), vh.Str(f.Name), optU(second.Type), optU(second.Era)), rp)
	}
}

func historyMonitor(c *vh.Ctx, hf *vh.CaseFile) error {
	fx, err := loadFixtures()
	if err != nil {
		return err
	}
	ids := []uint64{0, 1, 2, 3, 4, 5, 6, 7, 8, 9}
	for ei := range entries {
		for fi := range fx {
			f := &fx[fi]
			if entries[ei] == "NewTransactionFromCbor" && f.Tx == nil {
				continue
			}
			for _, t1 := range ids {
				for _, t2 := range ids {
					if t1 == t2 {
						continue
					}
					// a sample of the pairs where nothing decodes goes to Coq too
					historyPair(c, hf, ei, f, t1, t2, c.Rng.Chance(1, 25))
				}
			}
		}
	}
	return nil
}
