package main

import (
	"fmt"
	"os"
	"path/filepath"
	"strings"

	"github.com/blinklabs-io/gouroboros/ledger"
	"golang.org/x/crypto/blake2b"

	"verifharness/vh"
)

type fixture struct {
	Name      string
	EraId     uint64 // the Cardano era the block belongs to (0 Byron .. 7 Dijkstra), from the fixture's provenance
	BlockType uint   // its node-to-client block type id per the Cardano hard-fork combinator (0 EBB, 1 Byron main, 2 Shelley ...)
	Block     []byte
	Header    []byte
	Tx        []byte
}

// synthEbb builds a minimal Byron epoch boundary block (no mainnet EBB fixture in the repository).
func synthEbb() []byte {
	body := vh.A()
	proof := blake2b.Sum256(body.Enc())
	hdr := vh.A(vh.U(764824073), vh.B(make([]byte, 32)), vh.B(proof[:]), vh.A(vh.U(3), vh.A(vh.U(7))), vh.A(vh.M()))
	return vh.A(hdr, body, vh.A(vh.M())).Enc()
}

func loadFixtures() ([]fixture, error) { return loadFixturesOpt(true) }

// loadFixturesOpt(false) reads the bytes only and calls no entry point of the repository.
func loadFixturesOpt(withTx bool) ([]fixture, error) {
	dir := repoDir()
	specs := []struct {
		name string
		era  uint64
		bt   uint
		path string
	}{
		{"byron_main", 0, 1, "internal/testdata/byron_block.hex"},
		{"shelley", 1, 2, "internal/testdata/shelley_block.hex"},
		{"allegra", 2, 3, "internal/testdata/allegra_block.hex"},
		{"mary", 3, 4, "internal/testdata/mary_block.hex"},
		{"alonzo", 4, 5, "internal/testdata/alonzo_block.hex"},
		{"babbage", 5, 6, "internal/testdata/babbage_block.hex"},
		{"conway", 6, 7, "internal/testdata/conway_block.hex"},
		{"dijkstra", 7, 8, "ledger/dijkstra/testdata/musashi_dijkstra_block.hex"},
	}
	out := []fixture{{Name: "byron_ebb_synthetic", EraId: 0, BlockType: 0, Block: synthEbb()}}
	for _, s := range specs {
		b, err := os.ReadFile(filepath.Join(dir, s.path))
		if err != nil {
			return nil, err
		}
		out = append(out, fixture{Name: s.name, EraId: s.era, BlockType: s.bt, Block: vh.UnHex(strings.TrimSpace(string(b)))})
	}
	var dtx []byte
	if b, err := os.ReadFile(filepath.Join(dir, "ledger/dijkstra/testdata/cardano_ledger_dijkstra_w30_tx.hex")); err == nil {
		dtx = vh.UnHex(strings.TrimSpace(string(b)))
	}
	for i := range out {
		f := &out[i]
		it, n, err := vh.ParseItem(f.Block)
		if err != nil || n != len(f.Block) || it.K != vh.KArr || len(it.Xs) < 2 {
			return nil, fmt.Errorf("fixture %s is not a CBOR array", f.Name)
		}
		f.Header = it.Xs[0].Enc()
		if !withTx {
			continue
		}
		// first transaction, through the fixture's own block type
		vh.Recover(func() {
			blk, err := ledger.NewBlockFromCbor(f.BlockType, f.Block)
			if err == nil && len(blk.Transactions()) > 0 {
				f.Tx = blk.Transactions()[0].Cbor()
			}
		})
		if f.Tx == nil && f.Name == "dijkstra" {
			f.Tx = dtx
		}
	}
	return out, nil
}

// type ids probed at every entry point: all declared ones, gaps and far values
func probeIds() []uint64 {
	return []uint64{0, 1, 2, 3, 4, 5, 6, 7, 8, 9, 10, 255, 256, 1 << 32}
}

type obsB struct{ Type, Era, HdrEra uint64 }

func obsBlock(t uint, data []byte) *obsB {
	var o *obsB
	vh.Recover(func() {
		blk, err := ledger.NewBlockFromCbor(t, data)
		if err != nil || blk == nil {
			return
		}
		o = &obsB{uint64(blk.Type()), uint64(blk.Era().Id), uint64(blk.Header().Era().Id)}
	})
	return o
}

func obsHeader(t uint, data []byte) (era uint64, ok bool) {
	vh.Recover(func() {
		h, err := ledger.NewBlockHeaderFromCbor(t, data)
		if err != nil || h == nil {
			return
		}
		era, ok = uint64(h.Era().Id), true
	})
	return
}

func obsTx(t uint, data []byte) (ty uint64, ok bool) {
	vh.Recover(func() {
		tx, err := ledger.NewTransactionFromCbor(t, data)
		if err != nil || tx == nil {
			return
		}
		ty, ok = uint64(tx.Type()), true
	})
	return
}

// obsBlockOffsets: NewBlockFromCborWithOffsets(t, data).Block
func obsBlockOffsets(t uint, data []byte) *obsB {
	var o *obsB
	vh.Recover(func() {
		bo, err := ledger.NewBlockFromCborWithOffsets(t, data)
		if err != nil || bo == nil || bo.Block == nil {
			return
		}
		blk := bo.Block
		o = &obsB{uint64(blk.Type()), uint64(blk.Era().Id), uint64(blk.Header().Era().Id)}
	})
	return o
}

// entry points that take a type id, for the history class
var entries = []string{"NewBlockFromCbor", "NewBlockFromCborWithOffsets", "NewBlockHeaderFromCbor", "NewTransactionFromCbor"}

type obsAny struct {
	Ok     bool    `json:"ok"`
	Type   *uint64 `json:"type,omitempty"` // Type() where the result has one
	Era    *uint64 `json:"era,omitempty"`  // Era().Id where the result has one
	GoType string  `json:"go_type,omitempty"`
	Hash   string  `json:"hash,omitempty"`
}

func u64p(v uint64) *uint64 { return &v }

// callEntry calls one entry point with type id t on the fixture's bytes.
func callEntry(entry string, t uint, f *fixture) obsAny {
	var o obsAny
	vh.Recover(func() {
		switch entry {
		case "NewBlockFromCbor":
			b, err := ledger.NewBlockFromCbor(t, f.Block)
			if err == nil && b != nil {
				o = obsAny{true, u64p(uint64(b.Type())), u64p(uint64(b.Era().Id)), fmt.Sprintf("%T", b), b.Hash().String()}
			}
		case "NewBlockFromCborWithOffsets":
			bo, err := ledger.NewBlockFromCborWithOffsets(t, f.Block)
			if err == nil && bo != nil && bo.Block != nil {
				b := bo.Block
				o = obsAny{true, u64p(uint64(b.Type())), u64p(uint64(b.Era().Id)), fmt.Sprintf("%T", b), b.Hash().String()}
			}
		case "NewBlockHeaderFromCbor":
			h, err := ledger.NewBlockHeaderFromCbor(t, f.Header)
			if err == nil && h != nil {
				o = obsAny{true, nil, u64p(uint64(h.Era().Id)), fmt.Sprintf("%T", h), h.Hash().String()}
			}
		case "NewTransactionFromCbor":
			if f.Tx == nil {
				return
			}
			tx, err := ledger.NewTransactionFromCbor(t, f.Tx)
			if err == nil && tx != nil {
				o = obsAny{true, u64p(uint64(tx.Type())), nil, fmt.Sprintf("%T", tx), tx.Hash().String()}
			}
		}
	})
	return o
}

func (o obsAny) String() string {
	if !o.Ok {
		return "error"
	}
	s := o.GoType
	if o.Type != nil {
		s += fmt.Sprintf(" Type()=%d", *o.Type)
	}
	if o.Era != nil {
		s += fmt.Sprintf(" Era().Id=%d", *o.Era)
	}
	return s + " hash=" + o.Hash
}

func (o obsAny) same(p obsAny) bool { return o.String() == p.String() }
