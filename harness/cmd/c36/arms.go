package main

// Reading DetermineBlockType.
//
//  1. Syntactic (go/ast): the function's arms (outer `switch n { case L: }` or
//     a chain of `if n == L { }`), and per arm the ordered version ranges,
//     either an inner tagless `switch { case inProtocolRange(pm, A, B): return T, nil }`
//     or a package-level table (slice/array composite literal of {min, max,
//     type} elements, keyed or positional) the arm refers to.  A reading is
//     accepted only if it reproduces the real function on every probed header
//     (all lengths 0..32 x versions 0..1023, and versions 0..65535 for the
//     lengths of the arms read).
//  2. Otherwise the OBSERVED step function: the real function swept over
//     versions 0..65535 for every header body length 0..32.

import (
	"bytes"
	"fmt"
	"go/ast"
	"go/parser"
	"go/token"
	"path/filepath"
	"sort"
	"strings"

	"github.com/blinklabs-io/gouroboros/ledger"

	"verifharness/vh"
)

const probeLimit = 65535
const probeMaxLen = 32

// ---------------------------------------------------------------------------
// observation

type headerTemplate struct {
	enc []byte
	pos []int // offsets of the two version bytes
}

var templates = map[int]*headerTemplate{}

func template(n int) *headerTemplate {
	if t, ok := templates[n]; ok {
		return t
	}
	h := mkHeader(n, "uint-f2", 0xABCD)
	t := &headerTemplate{enc: h.Enc()}
	pat := []byte{0x19, 0xAB, 0xCD}
	for i := 0; i+3 <= len(t.enc); i++ {
		if bytes.Equal(t.enc[i:i+3], pat) {
			t.pos = append(t.pos, i+1)
		}
	}
	templates[n] = t
	return t
}

// observe calls the real DetermineBlockType on the synthetic header with n
// body fields and protocol major pv (pv <= 65535, 2-byte encoding).
func observe(n int, pv uint64) (uint64, bool) {
	t := template(n)
	for _, p := range t.pos {
		t.enc[p], t.enc[p+1] = byte(pv>>8), byte(pv)
	}
	var got uint
	var err error
	if p, _ := vh.Recover(func() { got, err = ledger.DetermineBlockType(t.enc) }); p || err != nil {
		return 0, false
	}
	return uint64(got), true
}

func interpret(lds []layoutDecl, n int, pv uint64) (uint64, bool) {
	for _, l := range lds {
		if l.Len == uint64(n) {
			for _, c := range l.Cases {
				if pv >= c.Min && pv <= c.Max {
					return c.Ret, true
				}
			}
			return 0, false
		}
	}
	return 0, false
}

// agrees checks a reading against the real function.
func agrees(lds []layoutDecl) error {
	chk := func(n int, pv uint64) error {
		a, aok := interpret(lds, n, pv)
		b, bok := observe(n, pv)
		if aok != bok || a != b {
			return fmt.Errorf("reading says (%d,%v), DetermineBlockType says (%d,%v) for %d fields, version %d", a, aok, b, bok, n, pv)
		}
		return nil
	}
	for n := 0; n <= probeMaxLen; n++ {
		for pv := uint64(0); pv < 1024; pv++ {
			if err := chk(n, pv); err != nil {
				return err
			}
		}
	}
	for _, l := range lds {
		if l.Len > probeMaxLen {
			return fmt.Errorf("arm for %d fields is outside the probed lengths", l.Len)
		}
		for pv := uint64(0); pv <= probeLimit; pv++ {
			if err := chk(int(l.Len), pv); err != nil {
				return err
			}
		}
	}
	return nil
}

// probeArms is the observed step function.
func probeArms() []layoutDecl {
	var out []layoutDecl
	for n := 0; n <= probeMaxLen; n++ {
		ld := layoutDecl{Len: uint64(n)}
		var cur *rangeCase
		for pv := uint64(0); pv <= probeLimit; pv++ {
			t, ok := observe(n, pv)
			if ok && cur != nil && cur.Ret == t && cur.Max+1 == pv {
				cur.Max = pv
				continue
			}
			if cur != nil {
				ld.Cases = append(ld.Cases, *cur)
				cur = nil
			}
			if ok {
				cur = &rangeCase{pv, pv, t}
			}
		}
		if cur != nil {
			ld.Cases = append(ld.Cases, *cur)
		}
		if len(ld.Cases) > 0 {
			out = append(out, ld)
		}
	}
	return out
}

// pvField finds, by observation, which body field of an n-field header
// carries the version: the header answers `want` for version pv only when
// that field holds it.
func pvField(ld *layoutDecl) {
	ld.PvIndex, ld.Nested = 1<<40, false
	if len(ld.Cases) == 0 {
		return
	}
	pv, want := ld.Cases[0].Min, ld.Cases[0].Ret
	n := int(ld.Len)
	for idx := 0; idx < n; idx++ {
		for _, nested := range []bool{false, true} {
			body := make([]*vh.Item, n)
			for i := range body {
				body[i] = vh.U(uint64(100000 + i))
			}
			if nested {
				body[idx] = vh.A(vh.U(pv), vh.U(0))
			} else {
				body[idx] = vh.U(pv)
			}
			enc := vh.A(vh.A(body...), vh.B(make([]byte, 8))).Enc()
			var got uint
			var err error
			if p, _ := vh.Recover(func() { got, err = ledger.DetermineBlockType(enc) }); !p && err == nil && uint64(got) == want {
				ld.PvIndex, ld.Nested = uint64(idx), nested
				return
			}
		}
	}
}

var armsCache struct {
	done bool
	lds  []layoutDecl
	src  string
	why  string
}

// armsAndSource returns the arms, "syntax" or "probe", and (for probe) why
// the syntactic reading was not used.
func armsAndSource() ([]layoutDecl, string, string) {
	if armsCache.done {
		return armsCache.lds, armsCache.src, armsCache.why
	}
	lds, err := readArms()
	if err == nil {
		err = agrees(lds)
	}
	src, why := "syntax", ""
	if err != nil {
		src, why = "probe", err.Error()
		lds = probeArms()
	}
	for i := range lds {
		pvField(&lds[i])
	}
	armsCache.done, armsCache.lds, armsCache.src, armsCache.why = true, lds, src, why
	return lds, src, why
}

// ---------------------------------------------------------------------------
// syntactic reading

type pkgSrc struct {
	funcs map[string]*ast.FuncDecl
	vars  map[string]ast.Expr
}

func loadPkg() (*pkgSrc, error) {
	fset := token.NewFileSet()
	matches, err := filepath.Glob(filepath.Join(repoDir(), "ledger", "*.go"))
	if err != nil {
		return nil, err
	}
	sort.Strings(matches)
	p := &pkgSrc{funcs: map[string]*ast.FuncDecl{}, vars: map[string]ast.Expr{}}
	for _, fn := range matches {
		if strings.HasSuffix(fn, "_test.go") {
			continue
		}
		f, err := parser.ParseFile(fset, fn, nil, 0)
		if err != nil {
			return nil, err
		}
		for _, d := range f.Decls {
			switch x := d.(type) {
			case *ast.FuncDecl:
				if x.Recv == nil {
					p.funcs[x.Name.Name] = x
				}
			case *ast.GenDecl:
				if x.Tok != token.VAR {
					continue
				}
				for _, sp := range x.Specs {
					vs := sp.(*ast.ValueSpec)
					for i, nm := range vs.Names {
						if i < len(vs.Values) {
							p.vars[nm.Name] = vs.Values[i]
						}
					}
				}
			}
		}
	}
	return p, nil
}

// rangeTable reads a composite literal of {min, max, type} elements.
func rangeTable(e ast.Expr) ([]rangeCase, bool) {
	cl, ok := e.(*ast.CompositeLit)
	if !ok || len(cl.Elts) == 0 {
		return nil, false
	}
	var out []rangeCase
	for _, el := range cl.Elts {
		if kv, ok := el.(*ast.KeyValueExpr); ok { // indexed array literal: not an ordered scan we understand
			_ = kv
			return nil, false
		}
		ecl, ok := el.(*ast.CompositeLit)
		if !ok || len(ecl.Elts) != 3 {
			return nil, false
		}
		var vals [3]uint64
		var have [3]bool
		for i, f := range ecl.Elts {
			slot, val := i, f
			if kv, ok := f.(*ast.KeyValueExpr); ok {
				k := strings.ToLower(identName(kv.Key))
				switch {
				case strings.Contains(k, "min") || strings.Contains(k, "first"):
					slot = 0
				case strings.Contains(k, "max") || strings.Contains(k, "last"):
					slot = 1
				case strings.Contains(k, "type") || strings.Contains(k, "block") || strings.Contains(k, "era"):
					slot = 2
				default:
					return nil, false
				}
				val = kv.Value
			}
			v, err := exprVal(val)
			if err != nil || have[slot] {
				return nil, false
			}
			vals[slot], have[slot] = v, true
		}
		out = append(out, rangeCase{vals[0], vals[1], vals[2]})
	}
	return out, true
}

// switchRanges reads `switch { case inProtocolRange(x, A, B): return T, nil ... default: ... }`.
func switchRanges(sw *ast.SwitchStmt) ([]rangeCase, bool) {
	var out []rangeCase
	for _, st := range sw.Body.List {
		cc := st.(*ast.CaseClause)
		if cc.List == nil {
			continue
		}
		if len(cc.List) != 1 {
			return nil, false
		}
		call, ok := cc.List[0].(*ast.CallExpr)
		if !ok || identName(call.Fun) != "inProtocolRange" || len(call.Args) != 3 {
			return nil, false
		}
		mn, e1 := exprVal(call.Args[1])
		mx, e2 := exprVal(call.Args[2])
		if e1 != nil || e2 != nil || len(cc.Body) != 1 {
			return nil, false
		}
		rs, ok := cc.Body[0].(*ast.ReturnStmt)
		if !ok || len(rs.Results) != 2 || identName(rs.Results[1]) != "nil" {
			return nil, false
		}
		ret, err := exprVal(rs.Results[0])
		if err != nil {
			return nil, false
		}
		out = append(out, rangeCase{mn, mx, ret})
	}
	return out, len(out) > 0
}

// armRanges finds the ordered ranges an arm uses: one inner range switch, or
// exactly one package-level range table mentioned in the arm (directly or in
// a function of this package the arm calls, one level deep).
func armRanges(p *pkgSrc, stmts []ast.Stmt) ([]rangeCase, error) {
	var switches [][]rangeCase
	tables := map[string][]rangeCase{}
	var visit func(n ast.Node, depth int)
	visit = func(n ast.Node, depth int) {
		ast.Inspect(n, func(x ast.Node) bool {
			switch y := x.(type) {
			case *ast.SwitchStmt:
				if y.Tag == nil {
					if rs, ok := switchRanges(y); ok {
						switches = append(switches, rs)
					}
				}
			case *ast.Ident:
				if v, ok := p.vars[y.Name]; ok {
					if rs, ok := rangeTable(v); ok {
						tables[y.Name] = rs
					}
				}
			case *ast.CallExpr:
				if f, ok := p.funcs[identName(y.Fun)]; ok && depth == 0 && f.Body != nil && identName(y.Fun) != "inProtocolRange" {
					visit(f.Body, depth+1)
				}
			}
			return true
		})
	}
	for _, s := range stmts {
		visit(s, 0)
	}
	if len(switches)+len(tables) != 1 {
		return nil, fmt.Errorf("arm mentions %d range switches and %d range tables", len(switches), len(tables))
	}
	if len(switches) == 1 {
		return switches[0], nil
	}
	for _, rs := range tables {
		return rs, nil
	}
	return nil, nil
}

// readArms reads DetermineBlockType's arms: an outer switch on a value with
// constant cases, or a chain / sequence of `if v == L { ... }`.
func readArms() ([]layoutDecl, error) {
	p, err := loadPkg()
	if err != nil {
		return nil, err
	}
	fn := p.funcs["DetermineBlockType"]
	if fn == nil || fn.Body == nil {
		return nil, fmt.Errorf("DetermineBlockType not found")
	}
	type arm struct {
		n     uint64
		stmts []ast.Stmt
	}
	var arms []arm
	var addIf func(is *ast.IfStmt)
	addIf = func(is *ast.IfStmt) {
		if be, ok := is.Cond.(*ast.BinaryExpr); ok && be.Op == token.EQL && is.Init == nil {
			for _, side := range []ast.Expr{be.Y, be.X} {
				if _, lit := side.(*ast.BasicLit); lit || identName(side) != "" || isSelector(side) {
					if v, err := exprVal(side); err == nil {
						arms = append(arms, arm{v, is.Body.List})
						break
					}
				}
			}
		}
		if next, ok := is.Else.(*ast.IfStmt); ok {
			addIf(next)
		}
	}
	for _, st := range fn.Body.List {
		switch x := st.(type) {
		case *ast.SwitchStmt:
			if x.Tag == nil {
				continue
			}
			for _, cs := range x.Body.List {
				cc := cs.(*ast.CaseClause)
				for _, e := range cc.List {
					if v, err := exprVal(e); err == nil {
						arms = append(arms, arm{v, cc.Body})
					} else {
						return nil, fmt.Errorf("outer case: %v", err)
					}
				}
			}
		case *ast.IfStmt:
			addIf(x)
		}
	}
	if len(arms) == 0 {
		return nil, fmt.Errorf("no `switch v { case L: }` / `if v == L { }` arms found in DetermineBlockType")
	}
	var out []layoutDecl
	for _, a := range arms {
		rs, err := armRanges(p, a.stmts)
		if err != nil {
			return nil, fmt.Errorf("arm %d: %v", a.n, err)
		}
		out = append(out, layoutDecl{Len: a.n, Cases: rs})
	}
	return out, nil
}

func isSelector(e ast.Expr) bool { _, ok := e.(*ast.SelectorExpr); return ok }
