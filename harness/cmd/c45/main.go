// C45 - reward calculation distributes exactly the reward pot.
//
// Runs common.CalculateRewards on generated snapshots.  The float64-derived raw
// amounts (and the map iteration orders) are taken from the implementation
// itself through the add-only verif hook common.VerifRewardsTrace
// (hooks/C45-rewards-trace.patch): THIS HARNESS DOES NOT COMPILE AGAINST A TREE
// WITHOUT THAT HOOK.  The monitor evaluates the property on the returned
// RewardCalculationResult with big.Int sums; the Coq model must reproduce the
// result from the raw amounts.
package main

import (
	"encoding/json"
	"fmt"
	"math"
	"math/big"
	"os"
	"runtime"
	"sort"
	"strconv"
	"strings"
	"sync"

	"github.com/blinklabs-io/gouroboros/cbor"
	"github.com/blinklabs-io/gouroboros/ledger/common"

	"verifharness/vh"
)

const header = `From V Require Import Lib.Base C45.Model.
Open Scope Z_scope.`

type delegIn struct {
	Stake      uint64 `json:"stake"`
	Registered bool   `json:"registered"`
}

type poolIn struct {
	Stake      uint64    `json:"stake"`
	HasParams  bool      `json:"has_params"`
	Cost       uint64    `json:"cost"`
	MarginNum  int64     `json:"margin_num"`
	MarginDen  int64     `json:"margin_den"` // 0: zero cbor.Rat{}
	Owners     []int     `json:"owners"`     // indices into Delegs; -1 = a key that does not delegate
	Blocks     uint32    `json:"blocks"`
	Delegs     []delegIn `json:"delegs"`
	NoDelegMap bool      `json:"no_deleg_map"`
}

type snapIn struct {
	TAS         uint64   `json:"total_active_stake"`
	Pot         uint64   `json:"pot"`
	Reserves    uint64   `json:"reserves"`
	Treasury    uint64   `json:"treasury"`
	TotalBlocks uint32   `json:"total_blocks"`
	A0Num       int64    `json:"a0_num"`
	A0Den       int64    `json:"a0_den"` // 0: nil
	Pools       []poolIn `json:"pools"`
	Note        string   `json:"note,omitempty"`
}

func poolKey(i int) common.PoolKeyHash {
	var k common.PoolKeyHash
	k[0], k[1] = byte(i+1), byte((i+1)>>8)
	k[27] = 0xA5
	return k
}

const ownerOnly = 65000 // delegator index of the owner key that does not delegate

// delegator id = pool*65536 + index + 1
func delegKey(p, d int) common.AddrKeyHash {
	var k common.AddrKeyHash
	k[0], k[1] = byte(p+1), byte((p+1)>>8)
	k[2], k[3] = byte(d+1), byte((d+1)>>8)
	k[27] = 0x5A
	return k
}
func poolID(k []byte) uint64  { return uint64(k[0]) + uint64(k[1])<<8 - 1 }
func delegIdx(k []byte) int   { return int(k[2]) + int(k[3])<<8 - 1 }
func delegID(k []byte) uint64 { return poolID(k)*65536 + uint64(delegIdx(k)) + 1 }

func buildSnapshot(in *snapIn) (common.AdaPots, common.RewardSnapshot, common.RewardParameters) {
	s := common.RewardSnapshot{
		TotalActiveStake:   in.TAS,
		PoolStake:          map[common.PoolKeyHash]uint64{},
		DelegatorStake:     map[common.PoolKeyHash]map[common.AddrKeyHash]uint64{},
		PoolParams:         map[common.PoolKeyHash]*common.PoolRegistrationCertificate{},
		StakeRegistrations: map[common.AddrKeyHash]bool{},
		PoolBlocks:         map[common.PoolKeyHash]uint32{},
		TotalBlocksInEpoch: in.TotalBlocks,
	}
	for i, p := range in.Pools {
		k := poolKey(i)
		s.PoolStake[k] = p.Stake
		if p.Blocks > 0 {
			s.PoolBlocks[k] = p.Blocks
		}
		if !p.NoDelegMap {
			m := map[common.AddrKeyHash]uint64{}
			for j, d := range p.Delegs {
				dk := delegKey(i, j)
				m[dk] = d.Stake
				if d.Registered {
					s.StakeRegistrations[dk] = true
				}
			}
			s.DelegatorStake[k] = m
		}
		if p.HasParams {
			cert := &common.PoolRegistrationCertificate{Operator: k, Cost: p.Cost}
			if p.MarginDen != 0 {
				cert.Margin = common.NewGenesisRat(p.MarginNum, p.MarginDen)
			} else {
				cert.Margin = cbor.Rat{}
			}
			for _, o := range p.Owners {
				if o < 0 {
					cert.PoolOwners = append(cert.PoolOwners, delegKey(i, ownerOnly))
				} else {
					cert.PoolOwners = append(cert.PoolOwners, delegKey(i, o))
				}
			}
			s.PoolParams[k] = cert
		}
	}
	params := common.RewardParameters{}
	if in.A0Den != 0 {
		params.PoolInfluence = big.NewRat(in.A0Num, in.A0Den)
	}
	return common.AdaPots{Reserves: in.Reserves, Treasury: in.Treasury, Rewards: in.Pot}, s, params
}

type ev struct {
	name string
	id   []byte
	v    uint64
	gid  uint64 // goroutine that emitted the record
}

// goid returns the id of the calling goroutine (harness-only: used to
// attribute interleaved trace records of concurrent workers)
func goid() uint64 {
	var buf [64]byte
	n := runtime.Stack(buf[:], false)
	f := strings.Fields(string(buf[:n]))
	if len(f) < 2 {
		return 0
	}
	g, _ := strconv.ParseUint(f[1], 10, 64)
	return g
}

type kv struct {
	ID uint64 `json:"id"`
	V  uint64 `json:"v"`
}

// one observed run
type obsPool struct {
	ID       uint64
	Total    uint64 // handed to distributePoolRewards (trace)
	OpRaw    uint64
	Delegs   []kv // registered delegators in loop order with raw amounts (trace)
	Operator uint64
	DRewards []kv
	RTotal   uint64
	traced   bool
}

type observation struct {
	raws   []kv
	err    bool
	total  uint64
	potOut uint64
	pools  []obsPool
	sig    string
}

func runOnce(in *snapIn) (obs observation, res *common.RewardCalculationResult, snap common.RewardSnapshot) {
	pots, snap, params := buildSnapshot(in)
	var trace []ev
	var tmu sync.Mutex
	// the distribution may run on several goroutines: records are taken under
	// a lock and later grouped per goroutine (within one goroutine a pool's
	// "pool-dist", "op-raw" and "deleg-raw" records are sequential)
	common.VerifRewardsTrace = func(name string, id []byte, v uint64) {
		g := goid()
		tmu.Lock()
		trace = append(trace, ev{name, append([]byte(nil), id...), v, g})
		tmu.Unlock()
	}
	res, err := common.CalculateRewards(pots, snap, params)
	common.VerifRewardsTrace = nil
	if err != nil {
		obs.err = true
		obs.sig = "err"
		return
	}
	obs.total, obs.potOut = res.TotalRewards, res.UpdatedPots.Rewards
	byID := map[uint64]*obsPool{}
	var order []uint64
	curOf := map[uint64]*obsPool{} // per goroutine: the pool being distributed
	for _, e := range trace {
		cur := curOf[e.gid]
		switch e.name {
		case "pool-raw":
			obs.raws = append(obs.raws, kv{poolID(e.id), e.v})
			order = append(order, poolID(e.id))
			byID[poolID(e.id)] = &obsPool{ID: poolID(e.id)}
		case "pool-dist":
			cur = byID[poolID(e.id)]
			if cur == nil {
				cur = &obsPool{ID: poolID(e.id)}
				byID[cur.ID] = cur
				order = append(order, cur.ID)
			}
			cur.Total, cur.traced = e.v, true
			curOf[e.gid] = cur
		case "op-raw":
			if cur != nil {
				cur.OpRaw = e.v
			}
		case "deleg-raw":
			// the key names its pool: attribute by key, not by position
			if p := byID[poolID(e.id)]; p != nil {
				p.Delegs = append(p.Delegs, kv{delegID(e.id), e.v})
			}
		}
	}
	for k, pr := range res.PoolRewards {
		id := poolID(k[:])
		p := byID[id]
		if p == nil {
			p = &obsPool{ID: id}
			byID[id] = p
			order = append(order, id)
		}
		p.Operator, p.RTotal = pr.OperatorRewards, pr.TotalRewards
		for dk, v := range pr.DelegatorRewards {
			p.DRewards = append(p.DRewards, kv{delegID(dk[:]), v})
		}
		sort.Slice(p.DRewards, func(a, b int) bool { return p.DRewards[a].ID < p.DRewards[b].ID })
	}
	for _, id := range order {
		obs.pools = append(obs.pools, *byID[id])
	}
	obs.sig = fmt.Sprintf("%v|%v", obs.raws, obs.pools)
	return
}

func bz(v uint64) string { return "(" + fmt.Sprint(v) + ")%Z" }
func kvList(xs []kv) string {
	s := make([]string, len(xs))
	for i, x := range xs {
		s[i] = "(" + vh.N(x.ID) + ", " + bz(x.V) + ")"
	}
	return vh.List(s)
}

func coqCase(in *snapIn, o *observation) string {
	ps := make([]string, len(o.pools))
	for i, p := range o.pools {
		pin := in.Pools[p.ID]
		var stakes []string
		if !pin.NoDelegMap {
			for _, d := range pin.Delegs {
				stakes = append(stakes, bz(d.Stake))
			}
		}
		ps[i] = fmt.Sprintf("mkPO %s (mkDist %s %s %s %s %s) %s %s %s", vh.N(p.ID), bz(p.Total), bz(pin.Cost), vh.List(stakes),
			bz(p.OpRaw), kvList(p.Delegs), bz(p.Operator), kvList(p.DRewards), bz(p.RTotal))
	}
	return fmt.Sprintf("mkCase %s %s %s %s %s %s %s", bz(in.TAS), bz(in.Pot), kvList(o.raws), vh.Bool(o.err), bz(o.total), bz(o.potOut),
		"["+strings.Join(ps, ";\n   ")+"]")
}

// monitor: the property statement, evaluated with unbounded integers
func monitor(c *vh.Ctx, in *snapIn, o *observation, res *common.RewardCalculationResult, orderNote string) {
	if o.err {
		// the only error: no pool has parameters
		for _, p := range in.Pools {
			if p.HasParams && in.TAS != 0 && in.Pot != 0 {
				c.Res.Violate("monitor", "unexpected-error", "CalculateRewards failed although a pool with parameters exists", in)
			}
		}
		return
	}
	pot := new(big.Int).SetUint64(in.Pot)
	if in.TAS == 0 || in.Pot == 0 {
		if res.TotalRewards != 0 || len(res.PoolRewards) != 0 || res.UpdatedPots.Rewards != in.Pot {
			c.Res.Violate("monitor", "empty-distribution-inconsistent", "nothing to distribute but the result is not the unchanged pots", in)
		}
		return
	}
	if res.TotalRewards != in.Pot || res.UpdatedPots.Rewards != 0 || res.UpdatedPots.Reserves != in.Reserves || res.UpdatedPots.Treasury != in.Treasury {
		c.Res.Violate("monitor", "result-pots-inconsistent", fmt.Sprintf("TotalRewards=%d UpdatedPots=%+v for pot %d", res.TotalRewards, res.UpdatedPots, in.Pot), in)
	}
	want := 0
	for i, p := range in.Pools {
		if p.HasParams {
			want++
			if _, ok := res.PoolRewards[poolKey(i)]; !ok {
				c.Res.Violate("monitor", "pool-set-differs", fmt.Sprintf("pool %d has parameters but no reward entry", i), in)
			}
		}
	}
	if want != len(res.PoolRewards) {
		c.Res.Violate("monitor", "pool-set-differs", fmt.Sprintf("%d pools with parameters, %d reward entries", want, len(res.PoolRewards)), in)
	}
	sum := new(big.Int)
	for k, pr := range res.PoolRewards {
		t := new(big.Int).SetUint64(pr.TotalRewards)
		sum.Add(sum, t)
		if t.Cmp(pot) > 0 {
			c.Res.Violate("monitor", "pool-total-exceeds-pot", fmt.Sprintf("pool %d total %d exceeds the pot %d (wrap-around)%s", poolID(k[:]), pr.TotalRewards, in.Pot, orderNote), in)
		}
		ps := new(big.Int).SetUint64(pr.OperatorRewards)
		if ps.Cmp(t) > 0 {
			c.Res.Violate("monitor", "reward-exceeds-pool-total", fmt.Sprintf("pool %d operator reward %d exceeds the pool total %d", poolID(k[:]), pr.OperatorRewards, pr.TotalRewards), in)
		}
		for dk, v := range pr.DelegatorRewards {
			x := new(big.Int).SetUint64(v)
			ps.Add(ps, x)
			if x.Cmp(t) > 0 {
				c.Res.Violate("monitor", "reward-exceeds-pool-total", fmt.Sprintf("pool %d delegator %d reward %d exceeds the pool total %d", poolID(k[:]), delegID(dk[:]), v, pr.TotalRewards), in)
			}
			if di := delegIdx(dk[:]); di >= len(in.Pools[poolID(k[:])].Delegs) || !in.Pools[poolID(k[:])].Delegs[di].Registered {
				c.Res.Violate("monitor", "unregistered-key-rewarded", fmt.Sprintf("pool %d delegator %d is not registered but rewarded", poolID(k[:]), delegID(dk[:])), in)
			}
		}
		if ps.Cmp(t) != 0 {
			c.Res.Violate("monitor", "pool-split-sum-not-total", fmt.Sprintf("pool %d: operator + delegators = %s, pool total %d", poolID(k[:]), ps, pr.TotalRewards), in)
		}
	}
	if sum.Cmp(pot) != 0 {
		c.Res.Violate("monitor", "pool-totals-sum-not-pot", fmt.Sprintf("pool totals add up to %s, the pot is %d%s", sum, in.Pot, orderNote), in)
	}
}

func classOf(in *snapIn) string {
	n := 0
	for _, p := range in.Pools {
		if p.HasParams {
			n++
		}
	}
	pc := "pot<2^53"
	switch {
	case in.Pot == 0:
		pc = "pot=0"
	case in.Pot >= 1<<63:
		pc = "pot>=2^63"
	case in.Pot >= 1<<53:
		pc = "pot>=2^53"
	}
	b := fmt.Sprint(n)
	switch {
	case n > 257:
		b = "258+"
	case n > 129:
		b = "130..257"
	case n > 70:
		b = "71..129"
	case n >= 32:
		b = "32..70"
	case n > 8:
		b = "9..31"
	}
	return fmt.Sprintf("pools=%s/%s", b, pc)
}

// GOMAXPROCS values every snapshot is run under (0 = the process default):
// the result must not depend on the available parallelism
var procsAll = []int{1, 2, 3, 5, 6, 7, 12, 0}

var defaultProcs = runtime.GOMAXPROCS(0)

func setProcs(p int) int {
	if p <= 0 {
		p = defaultProcs
	}
	runtime.GOMAXPROCS(p)
	return p
}

// invariant part of a result: independent of map iteration order on a correct
// implementation (error flag, set of rewarded pools, sum of the pool totals)
func invariantSig(o *observation, res *common.RewardCalculationResult) string {
	if o.err || res == nil {
		return "err"
	}
	ids := make([]int, 0, len(res.PoolRewards))
	sum := new(big.Int)
	for k, pr := range res.PoolRewards {
		ids = append(ids, int(poolID(k[:])))
		sum.Add(sum, new(big.Int).SetUint64(pr.TotalRewards))
	}
	sort.Ints(ids)
	return fmt.Sprintf("pools=%v sum=%s total=%d pot=%d", ids, sum, res.TotalRewards, res.UpdatedPots.Rewards)
}

// runCase runs one snapshot `reps` times under each GOMAXPROCS value of procs.
// At most coqMax distinct observations are sent to the Coq model (none when
// the snapshot has more than coqPools pools: monitor only).
func runCase(c *vh.Ctx, cf *vh.CaseFile, in snapIn, procs []int, reps, coqMax, coqPools int) {
	c.Begin(in)
	defer setProcs(0)
	canon, _ := json.Marshal(in)
	seen := map[string]bool{}
	sent := 0
	firstInv, firstP := "", 0
	for _, pp := range procs {
		p := setProcs(pp)
		for r := 0; r < reps; r++ {
			var o observation
			var res *common.RewardCalculationResult
			panicked, pv := vh.Recover(func() { o, res, _ = runOnce(&in) })
			if panicked {
				c.Res.Violate("monitor", "calculate-rewards-panic", fmt.Sprintf("CalculateRewards panicked (GOMAXPROCS=%d): %v", p, pv), in)
				return
			}
			inv := invariantSig(&o, res)
			if firstInv == "" {
				firstInv, firstP = inv, p
			} else if inv != firstInv {
				a, b := firstInv, inv
				if len(a) > 300 {
					a = a[:300] + "..."
				}
				if len(b) > 300 {
					b = b[:300] + "..."
				}
				c.Res.Violate("monitor", "rewards-depend-on-gomaxprocs", fmt.Sprintf("rewarded pool set / sum of totals differ between GOMAXPROCS=%d (%s) and GOMAXPROCS=%d (%s)", firstP, a, p, b), in)
			}
			if seen[o.sig] {
				continue
			}
			seen[o.sig] = true
			n := len(o.pools)
			cl := classOf(&in)
			toCoq := sent < coqMax && n <= coqPools
			if n > coqPools {
				cl += "/monitor-only"
			}
			c.Res.Count(string(canon)+o.sig, n >= 2 && in.Pot > 0, cl)
			if n >= 2 && n <= 8 {
				c.Res.Sample(map[string]any{"class": classOf(&in), "pot": in.Pot, "pools": n, "gomaxprocs": p, "raw_amounts_in_iteration_order": o.raws})
			}
			note := fmt.Sprintf(" [GOMAXPROCS=%d]", p)
			if len(o.raws) > 0 {
				note += fmt.Sprintf(" [second-pass order ends with pool %d]", o.raws[len(o.raws)-1].ID)
			}
			monitor(c, &in, &o, res, note)
			if toCoq {
				cf.Add(coqCase(&in, &o), in)
				sent++
			}
		}
	}
}

// ---- generators -------------------------------------------------------------------

const maxAda = 45_000_000_000_000_000

func genStake(r *vh.Rng) uint64 {
	switch r.Intn(7) {
	case 0:
		return 0
	case 1:
		return uint64(r.Intn(1000))
	case 2:
		return maxAda - uint64(r.Intn(3))
	case 3:
		return (1 << 53) - 1 + uint64(r.Intn(3))
	default:
		return r.U64() % maxAda
	}
}

func genPot(r *vh.Rng) uint64 {
	switch r.Intn(10) {
	case 0:
		return uint64(1 + r.Intn(1000))
	case 1, 2:
		return (1 << 53) - 4 + uint64(r.Intn(12))
	case 3:
		return (1 << 63) - 4 + uint64(r.Intn(8))
	case 4:
		return math.MaxUint64 - uint64(r.Intn(3))
	case 5:
		return (1 << 53) + 1 + 2*uint64(r.Intn(1<<20)) // odd, above 2^53: float64(pot) != pot
	case 6:
		return r.U64()
	case 7:
		return (1 << 54) + 2 + 4*uint64(r.Intn(1000))
	default:
		return 10_000_000_000_000 + r.U64()%30_000_000_000_000 // typical epoch pot
	}
}

func genSnap(r *vh.Rng) snapIn {
	n := 1 + r.Intn(8)
	if r.Chance(1, 3) {
		n = 1 + r.Intn(3)
	}
	if r.Chance(1, 12) {
		n = 9 + r.Intn(72) // beyond any small-batch / parallelism threshold
	}
	return genSnapN(r, n, false)
}

// genSnapN: a snapshot with n pools; sweep = every pool has parameters, the
// pot and the stake are non-zero (so exactly n pools must be rewarded), a few
// delegators per pool and now and then one pool with many
func genSnapN(r *vh.Rng, n int, sweep bool) snapIn {
	var in snapIn
	in.Pot = genPot(r)
	if r.Chance(1, 40) {
		in.Pot = 0
	}
	if sweep && r.Chance(1, 2) {
		in.Pot = 10_000_000_000_000 + r.U64()%30_000_000_000_000
	}
	in.Reserves, in.Treasury = r.U64()%maxAda, r.U64()%maxAda
	in.TotalBlocks = uint32(r.Intn(3) * r.Intn(22000))
	if r.Chance(1, 2) {
		in.A0Num, in.A0Den = int64(r.Intn(10)), 10
	}
	zeroShares := r.Chance(1, 6) // all pools without blocks: the equal-share path
	big := -1
	if r.Chance(1, 4) {
		big = r.Intn(n) // one pool with many delegators
	}
	var tot uint64
	for i := 0; i < n; i++ {
		var p poolIn
		p.HasParams = sweep || !r.Chance(1, 12)
		nd := r.Intn(6)
		if n > 8 {
			nd = r.Intn(3)
		}
		if i == big {
			nd = 30 + r.Intn(40)
		}
		var sum uint64
		for j := 0; j < nd; j++ {
			d := delegIn{Stake: genStake(r) / uint64(1+r.Intn(4)), Registered: !r.Chance(1, 4)}
			sum += d.Stake
			p.Delegs = append(p.Delegs, d)
		}
		p.Stake = sum
		if r.Chance(1, 4) {
			p.Stake = genStake(r)
		}
		tot += p.Stake
		p.NoDelegMap = r.Chance(1, 15)
		switch r.Intn(5) {
		case 0:
			p.Cost = 0
		case 1:
			p.Cost = 340_000_000
		case 2:
			p.Cost = in.Pot / uint64(1+r.Intn(4)) // often >= the pool total
		case 3:
			p.Cost = r.Boundary()
		default:
			p.Cost = uint64(r.Intn(1_000_000_000))
		}
		switch r.Intn(8) {
		case 0:
			p.MarginDen = 0 // zero Rat
		case 1:
			p.MarginNum, p.MarginDen = 1, 1
		case 2:
			p.MarginNum, p.MarginDen = 0, 1
		case 3:
			p.MarginNum, p.MarginDen = 3, 2 // malformed: above 1
		default:
			p.MarginDen = int64(1 + r.Intn(100))
			p.MarginNum = int64(r.Intn(int(p.MarginDen) + 1))
		}
		for j := 0; j < nd; j++ {
			if r.Chance(1, 3) {
				p.Owners = append(p.Owners, j)
			}
		}
		if r.Chance(1, 5) {
			p.Owners = append(p.Owners, -1)
		}
		if in.TotalBlocks > 0 && !zeroShares {
			p.Blocks = uint32(r.Intn(int(in.TotalBlocks)/n + 2))
		}
		in.Pools = append(in.Pools, p)
	}
	in.TAS = tot
	switch r.Intn(10) {
	case 0:
		in.TAS = genStake(r)
	case 1:
		in.TAS = maxAda
	}
	if r.Chance(1, 40) {
		in.TAS = 0
	}
	if sweep {
		if in.TAS == 0 {
			in.TAS = maxAda
		}
		if in.Pot == 0 {
			in.Pot = 31_000_000_000_007
		}
	}
	return in
}

func corpus() []snapIn {
	one := func(stake uint64, regd bool) []delegIn { return []delegIn{{Stake: stake, Registered: regd}} }
	return []snapIn{
		// the probe of round 0: float64(2^53+3)*1.0 rounds to pot+1; the adjustment -1 lands on the zero-share pool when it is iterated last
		{Note: "pot 2^53+3, pool 0 holds all stake, pool 1 has a zero share", TAS: 1_000_000, Pot: (1 << 53) + 3, TotalBlocks: 10,
			Pools: []poolIn{{Stake: 1_000_000, HasParams: true, Cost: 340_000_000, MarginNum: 1, MarginDen: 20, Blocks: 10, Delegs: one(1_000_000, true)},
				{Stake: 0, HasParams: true, Cost: 340_000_000, MarginNum: 1, MarginDen: 20, Blocks: 0, Delegs: one(0, true)}}},
		// single delegator holding all the pool stake, stakeholder total above 2^53 and odd: the delegator share rounds up
		{Note: "one pool, one delegator, pot 2^54+2: delegator share rounds above the stakeholder total", TAS: 5_000_000, Pot: (1 << 54) + 2, TotalBlocks: 0,
			Pools: []poolIn{{Stake: 5_000_000, HasParams: true, Cost: 1, MarginNum: 0, MarginDen: 1, Delegs: one(5_000_000, true)}}},
		// margin 1: the operator share is float64(total-cost)*1.0, rounds up above 2^53
		{Note: "margin 1/1, pot 2^53+3: operator share rounds above total-cost", TAS: 7, Pot: (1 << 53) + 3, TotalBlocks: 0,
			Pools: []poolIn{{Stake: 7, HasParams: true, Cost: 0, MarginNum: 1, MarginDen: 1, Delegs: one(7, true)}}},
		{Note: "margin above 1 (malformed certificate)", TAS: 7, Pot: 1000, TotalBlocks: 0,
			Pools: []poolIn{{Stake: 7, HasParams: true, Cost: 10, MarginNum: 3, MarginDen: 2, Delegs: []delegIn{{3, true}, {4, true}}, Owners: []int{0}}}},
		{Note: "unregistered delegators: their share goes to the operator", TAS: 100, Pot: 1_000_000, TotalBlocks: 0,
			Pools: []poolIn{{Stake: 100, HasParams: true, Cost: 10, MarginNum: 1, MarginDen: 10, Delegs: []delegIn{{30, true}, {30, false}, {40, true}}, Owners: []int{2}}}},
		{Note: "no pool has parameters: error", TAS: 100, Pot: 1000, Pools: []poolIn{{Stake: 100}}},
		{Note: "zero total active stake", TAS: 0, Pot: 1000, Pools: []poolIn{{Stake: 100, HasParams: true}}},
		{Note: "pot 2^64-1", TAS: 10, Pot: math.MaxUint64, Pools: []poolIn{{Stake: 5, HasParams: true, Delegs: one(5, true)}, {Stake: 5, HasParams: true, Delegs: one(5, true)}}},
	}
}

func run(c *vh.Ctx) error {
	c.Res.Rule = "reward snapshots with 1..8 pools, sometimes 9..80 (some without parameters or without a delegator map), plus a pool-count sweep: every count 1..70 (thorough 1..200) and 127/128/129/255/256/257/1000 (thorough also 511..513, 1023..1025, 2048, 4097) with all pools rewarded, 0..2 delegators each and now and then one pool with 30..69 delegators, stakes 0 .. 4.5e16 (total ada supply) incl. 2^53 boundaries, margins 0, 1, k/d, above 1 and the zero Rat, costs 0 / 340 ada / above the pool total / uint64 boundaries, owner sets (delegating and non-delegating owners), unregistered delegators, block counts incl. none (equal-share path), pots: small, typical epoch pot, around 2^53, odd above 2^53, around 2^63, up to 2^64-1; every snapshot is run several times because the result depends on Go map iteration order, and under several GOMAXPROCS values (sweep: all of 1,2,3,5,6,7,12,default; random: two or three of them) - the rewarded pool set and the sum of totals must not depend on it; snapshots with more than 130 (thorough 260) pools are monitor-only; distinct by input + observed raw amounts and orders; non-trivial = at least 2 rewarded pools and a non-zero pot"
	c.Res.Modelled = []string{"all float64 arithmetic of rewards.go (pool shares, normalisation, operator share, delegator shares) is an oracle: the uint64 conversions of the float results enter the model as data taken from the implementation through the verif trace hook; map iteration orders likewise"}
	cf := c.NewCaseFile("c45", header)
	cf.SetShardSize(c.Pick(60, 150))
	// snapshots with many pools are heavy for vm_compute: own shards, run in parallel
	bf := c.NewCaseFile("c45big", header)
	bf.SetShardSize(c.Pick(6, 10))
	coqPools := c.Pick(130, 260)
	if c.Replay != "" {
		b, err := os.ReadFile(c.Replay)
		if err != nil {
			return err
		}
		var rp struct {
			Replay snapIn `json:"replay"`
		}
		if err := json.Unmarshal(b, &rp); err != nil {
			return err
		}
		runCase(c, cf, rp.Replay, procsAll, 8, 4, coqPools)
		cf.Flush()
		return nil
	}
	for _, in := range corpus() {
		// both iteration orders of two pools with probability 1 - 2^-63
		runCase(c, cf, in, []int{0, 1}, 32, 6, coqPools)
	}
	// pool-count sweep: every count 1..70 (thorough 1..200) and boundary counts,
	// each under every GOMAXPROCS value; exactly n pools must be rewarded
	var sizes []int
	for n := 1; n <= c.Pick(70, 200); n++ {
		sizes = append(sizes, n)
	}
	sizes = append(sizes, 127, 128, 129, 255, 256, 257, 1000)
	if c.Thorough() {
		sizes = append(sizes, 511, 512, 513, 1023, 1024, 1025, 2048, 4097)
	}
	for k, n := range sizes {
		procs := append(append([]int(nil), procsAll[k%len(procsAll):]...), procsAll[:k%len(procsAll)]...)
		f := cf
		if n > 12 {
			f = bf
		}
		runCase(c, f, genSnapN(c.Rng, n, true), procs, 1, 1, coqPools)
	}
	n := c.Pick(220, 3000)
	for i := 0; i < n; i++ {
		in := genSnap(c.Rng)
		procs := []int{vh.PickOne(c.Rng, procsAll), vh.PickOne(c.Rng, procsAll)}
		if c.Thorough() {
			procs = append(procs, vh.PickOne(c.Rng, procsAll))
		}
		f := cf
		if len(in.Pools) > 12 {
			f = bf
		}
		runCase(c, f, in, procs, 1, 2, coqPools)
	}
	cf.Flush()
	bf.Flush()
	return nil
}

func main() { vh.Main(vh.Runner{Property: "C45", Run: run}) }
