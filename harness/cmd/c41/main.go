// C41 - chain selection is a consistent preference order.
//
// Runs PraosChainSelector.Compare / CompareWithDensity / IsDeepFork /
// Preferred / PreferredWithDensity (consensus/selection.go) and
// GenesisSelector.Compare / Preferred / ComputeGenesisWindow
// (consensus/genesis/genesis.go) on generated candidate sets, evaluates the
// property directly (monitor) and emits the cases for the Coq model.
package main

import (
	"bytes"
	"encoding/json"
	"fmt"
	"io"
	"log/slog"
	"math"
	"math/big"
	"os"

	"github.com/blinklabs-io/gouroboros/consensus"
	"github.com/blinklabs-io/gouroboros/consensus/genesis"

	"verifharness/vh"
)

const header = `From Coq Require Import String.
From V Require Import Lib.Base Lib.Hex C41.Model.
Open Scope string_scope.`

type tipIn struct {
	Kind  string   `json:"kind"` // "w" windowed, "p" plain SimpleChainTip, "nil"
	Slot  uint64   `json:"slot"`
	BN    uint64   `json:"bn"`
	VRF   string   `json:"vrf"` // hex
	Slots []uint64 `json:"slots,omitempty"`
	BAF   uint64   `json:"blocks_after_fork,omitempty"`
	SAF   uint64   `json:"slots_after_fork,omitempty"`
}

type caseIn struct {
	K        uint64  `json:"k"`
	Window   uint64  `json:"window"`
	ForkSlot uint64  `json:"fork_slot"`
	ForkBN   uint64  `json:"fork_bn"`
	TipBN    uint64  `json:"tip_bn"`
	Tips     []tipIn `json:"tips"`
	Note     string  `json:"note,omitempty"`
}

func build(t tipIn) consensus.ChainTip {
	var vrf []byte
	if t.VRF != "" {
		vrf = vh.UnHex(t.VRF)
	}
	switch t.Kind {
	case "w":
		return consensus.NewWindowedChainTip(t.Slot, t.BN, vrf, t.Slots)
	case "p":
		return consensus.NewSimpleChainTipWithDensity(t.Slot, t.BN, vrf, t.BAF, t.SAF)
	}
	return nil
}

func sign(x int) int {
	if x > 0 {
		return 1
	}
	if x < 0 {
		return -1
	}
	return 0
}

// ---- independent oracle, written from the property text ---------------------

// specVRF: 0 equal, +1 a preferred (lower value; a missing output loses).
// Values are compared as big-endian naturals by stripping leading zeros and
// comparing (length, bytes) - no big.Int, unlike the implementation.
func specVRF(a, b []byte) int {
	if len(a) == 0 && len(b) == 0 {
		return 0
	}
	if len(a) == 0 {
		return -1
	}
	if len(b) == 0 {
		return 1
	}
	a = bytes.TrimLeft(a, "\x00")
	b = bytes.TrimLeft(b, "\x00")
	if len(a) != len(b) {
		if len(a) < len(b) {
			return 1
		}
		return -1
	}
	return -bytes.Compare(a, b)
}

// specCompare: longer chain wins, tie goes to the lower VRF output
func specCompare(a, b *tipIn) int {
	if a == nil || b == nil {
		switch {
		case a == nil && b == nil:
			return 0
		case a == nil:
			return -1
		}
		return 1
	}
	if a.BN != b.BN {
		if a.BN > b.BN {
			return 1
		}
		return -1
	}
	return specVRF(vh.UnHex(a.VRF), vh.UnHex(b.VRF))
}

// specWindowCount: blocks with fork < s <= fork+window, unbounded arithmetic
func specWindowCount(slots []uint64, fork, window uint64) int {
	hi := new(big.Int).Add(new(big.Int).SetUint64(fork), new(big.Int).SetUint64(window))
	n := 0
	for _, s := range slots {
		if s > fork && new(big.Int).SetUint64(s).Cmp(hi) <= 0 {
			n++
		}
	}
	return n
}

func specDeep(in *caseIn) bool {
	d := new(big.Int).Sub(new(big.Int).SetUint64(in.TipBN), new(big.Int).SetUint64(in.ForkBN))
	return d.Cmp(new(big.Int).SetUint64(in.K)) > 0
}

func tipPtr(t *tipIn) *tipIn {
	if t.Kind == "nil" {
		return nil
	}
	return t
}

func classOf(in *caseIn) string {
	w, p, n := 0, 0, 0
	for _, t := range in.Tips {
		switch t.Kind {
		case "w":
			w++
		case "p":
			p++
		default:
			n++
		}
	}
	cl := "windowed-only"
	switch {
	case w > 0 && p > 0:
		cl = "mixed-kinds"
	case p > 0:
		cl = "plain-only"
	case w == 0:
		cl = "nil-only-or-empty"
	}
	if n > 0 && (w > 0 || p > 0) {
		cl += "+nil"
	}
	return cl
}

// homogeneous: compareDensity uses one metric for every pair of the set
func homogeneous(in *caseIn) bool {
	if in.Window == 0 {
		return true
	}
	w, p := 0, 0
	for _, t := range in.Tips {
		if t.Kind == "w" {
			w++
		} else if t.Kind == "p" {
			p++
		}
	}
	return w == 0 || p == 0
}

func perms(n int, r *vh.Rng, limit int) [][]int {
	var out [][]int
	if n == 0 {
		return [][]int{{}}
	}
	if n <= 4 {
		var rec func(cur []int, used []bool)
		rec = func(cur []int, used []bool) {
			if len(cur) == n {
				out = append(out, append([]int(nil), cur...))
				return
			}
			for i := 0; i < n; i++ {
				if !used[i] {
					used[i] = true
					rec(append(cur, i), used)
					used[i] = false
				}
			}
		}
		rec(nil, make([]bool, n))
		return out
	}
	id := make([]int, n)
	for i := range id {
		id[i] = i
	}
	out = append(out, append([]int(nil), id...))
	for len(out) < limit {
		p := append([]int(nil), id...)
		for i := n - 1; i > 0; i-- {
			j := r.Intn(i + 1)
			p[i], p[j] = p[j], p[i]
		}
		out = append(out, p)
	}
	return out
}

func indexOf(cs []consensus.ChainTip, x consensus.ChainTip) (int, bool) {
	if len(cs) == 0 {
		return 0, false
	}
	for i, c := range cs {
		if c == x {
			return i, true
		}
	}
	return -1, true
}

func coqTip(t tipIn, dens uint64) string {
	if t.Kind == "nil" {
		return "None"
	}
	win := "None"
	if t.Kind == "w" {
		s := make([]string, len(t.Slots))
		for i, x := range t.Slots {
			s[i] = vh.N(x)
		}
		win = "(Some " + vh.List(s) + ")"
	}
	return fmt.Sprintf("(Some (mkTip %s %s %s %s))", vh.N(t.BN), vh.Bytes(vh.UnHex(t.VRF)), win, vh.N(dens))
}

func zlist(xs []int) string {
	s := make([]string, len(xs))
	for i, x := range xs {
		s[i] = vh.Z(int64(x))
	}
	return vh.List(s)
}

func onat(i int, ok bool) string {
	if !ok {
		return "None"
	}
	return "(Some " + vh.Nat(i) + ")"
}

func runCase(c *vh.Ctx, cf *vh.CaseFile, in caseIn) {
	c.Begin(in)
	n := len(in.Tips)
	sel := consensus.NewPraosChainSelectorWithWindow(in.K, in.Window)
	fork := consensus.ForkPoint{Slot: in.ForkSlot, BlockNumber: in.ForkBN}
	tips := make([]consensus.ChainTip, n)
	dens := make([]uint64, n)
	densOK := true
	for i, t := range in.Tips {
		tips[i] = build(t)
		if tips[i] != nil {
			d := tips[i].Density(in.ForkSlot)
			if math.IsNaN(d) || d < 0 || math.Signbit(d) {
				densOK = false
			}
			dens[i] = math.Float64bits(d) // order-isomorphic on non-negative non-NaN floats
		}
	}
	cl := classOf(&in)
	homog := homogeneous(&in)
	canon, _ := json.Marshal(in)
	var cmp, cwd []int
	var deep bool
	type ord struct {
		perm   []int
		i1, i2 int
		ok     bool
	}
	var ords []ord
	panicked, pv := vh.Recover(func() {
		deep = sel.IsDeepFork(fork, in.TipBN)
		for i := 0; i < n; i++ {
			for j := 0; j < n; j++ {
				cmp = append(cmp, sel.Compare(tips[i], tips[j]))
				cwd = append(cwd, sel.CompareWithDensity(tips[i], tips[j], fork, in.TipBN))
			}
		}
		for _, p := range perms(n, c.Rng, 30) {
			cs := make([]consensus.ChainTip, n)
			for k, i := range p {
				cs[k] = tips[i]
			}
			i1, ok := indexOf(cs, sel.Preferred(cs))
			i2, _ := indexOf(cs, sel.PreferredWithDensity(cs, fork, in.TipBN))
			ords = append(ords, ord{p, i1, i2, ok})
		}
	})
	nontrivial := n >= 3
	c.Res.Count(string(canon), nontrivial, fmt.Sprintf("%s/deep=%v/n=%d", cl, deep, n))
	if nontrivial {
		c.Res.Sample(map[string]any{"class": cl, "deep": deep, "case": in})
	}
	if panicked {
		c.Res.Violate("monitor", "selection-panic", fmt.Sprintf("chain selection panicked: %v", pv), in)
		return
	}
	at := func(m []int, i, j int) int { return m[i*n+j] }
	mixedKey := func(k string) string {
		if !homog {
			return "mixed-tip-kinds-" + k
		}
		return k
	}

	// (0) routing predicate
	if deep != specDeep(&in) {
		c.Res.Violate("monitor", "deep-fork-classification", fmt.Sprintf("IsDeepFork(fork.bn=%d, tip=%d, k=%d) = %v", in.ForkBN, in.TipBN, in.K, deep), in)
	}
	// (1) antisymmetry, (2) transitivity of both comparisons
	for name, m := range map[string][]int{"compare": cmp, "compare-with-density": cwd} {
		key := name
		if name == "compare-with-density" {
			key = mixedKey(name)
		}
		for i := 0; i < n; i++ {
			if at(m, i, i) != 0 {
				c.Res.Violate("monitor", key+"-irreflexive", fmt.Sprintf("%s(c%d,c%d) = %d", name, i, i, at(m, i, i)), in)
			}
			for j := 0; j < n; j++ {
				if sign(at(m, i, j)) != -sign(at(m, j, i)) {
					c.Res.Violate("monitor", key+"-not-antisymmetric", fmt.Sprintf("%s(c%d,c%d) = %d but (c%d,c%d) = %d", name, i, j, at(m, i, j), j, i, at(m, j, i)), in)
				}
				for k := 0; k < n; k++ {
					if at(m, i, j) >= 0 && at(m, j, k) >= 0 && at(m, i, k) < 0 {
						what := fmt.Sprintf("%s: c%d >= c%d (%d), c%d >= c%d (%d) but c%d < c%d (%d)", name, i, j, at(m, i, j), j, k, at(m, j, k), i, k, at(m, i, k))
						if name == "compare" {
							c.Res.Violate("monitor", "compare-intransitive", what, in)
						} else if !homog {
							c.Res.Violate("monitor", "mixed-tip-kinds-intransitive", what, in)
						} else {
							c.Res.Violate("monitor", "compare-with-density-intransitive", what, in)
						}
					}
				}
			}
		}
	}
	// (3) rule clauses against the oracle written from the property text
	for i := 0; i < n; i++ {
		for j := 0; j < n; j++ {
			a, b := tipPtr(&in.Tips[i]), tipPtr(&in.Tips[j])
			want := specCompare(a, b)
			if sign(at(cmp, i, j)) != want {
				key := "rule-longer-chain"
				if a != nil && b != nil && a.BN == b.BN {
					key = "rule-vrf-tiebreak"
				}
				c.Res.Violate("monitor", key, fmt.Sprintf("Compare(c%d,c%d) = %d, the rule (longer chain, then lower VRF, missing VRF last) gives %d", i, j, at(cmp, i, j), want), in)
			}
			if a == nil || b == nil {
				if sign(at(cwd, i, j)) != want {
					c.Res.Violate("monitor", "nil-candidate-order", fmt.Sprintf("CompareWithDensity(c%d,c%d) = %d with a nil candidate, expected %d", i, j, at(cwd, i, j), want), in)
				}
				continue
			}
			if !specDeep(&in) {
				// shallow fork: ordinary rule, density never consulted
				if sign(at(cwd, i, j)) != want {
					c.Res.Violate("monitor", "shallow-fork-not-ordinary-rule", fmt.Sprintf("shallow fork: CompareWithDensity(c%d,c%d) = %d, ordinary rule gives %d", i, j, at(cwd, i, j), want), in)
				}
				continue
			}
			if in.Window > 0 && a.Kind == "w" && b.Kind == "w" {
				ca := specWindowCount(a.Slots, in.ForkSlot, in.Window)
				cb := specWindowCount(b.Slots, in.ForkSlot, in.Window)
				w := want
				if ca > cb {
					w = 1
				} else if ca < cb {
					w = -1
				}
				if sign(at(cwd, i, j)) != w {
					c.Res.Violate("monitor", "deep-fork-window-density-first", fmt.Sprintf("deep fork: CompareWithDensity(c%d,c%d) = %d; blocks in window %d vs %d, ordinary rule %d: expected %d", i, j, at(cwd, i, j), ca, cb, want, w), in)
				}
			} else if densOK {
				// legacy ratio (oracle value): density first, then ordinary rule
				w := want
				if dens[i] > dens[j] {
					w = 1
				} else if dens[i] < dens[j] {
					w = -1
				}
				if sign(at(cwd, i, j)) != w {
					c.Res.Violate("monitor", "deep-fork-legacy-density-first", fmt.Sprintf("deep fork (legacy ratio): CompareWithDensity(c%d,c%d) = %d, expected %d", i, j, at(cwd, i, j), w), in)
				}
			}
		}
	}
	// (4) maximality in every order, (5) order independence
	first1, first2 := -1, -1
	for _, o := range ords {
		if !o.ok {
			continue
		}
		if o.i1 < 0 || o.i2 < 0 {
			c.Res.Violate("monitor", "preferred-not-a-candidate", fmt.Sprintf("order %v: the returned tip is not one of the candidates", o.perm), in)
			continue
		}
		g1, g2 := o.perm[o.i1], o.perm[o.i2]
		for x := 0; x < n; x++ {
			if at(cmp, g1, x) < 0 {
				c.Res.Violate("monitor", "preferred-not-maximal", fmt.Sprintf("order %v: Preferred returns c%d but Compare(c%d,c%d) = %d", o.perm, g1, g1, x, at(cmp, g1, x)), in)
			}
			if at(cwd, g2, x) < 0 {
				c.Res.Violate("monitor", mixedKey("preferred-with-density-not-maximal"), fmt.Sprintf("order %v: PreferredWithDensity returns c%d but CompareWithDensity(c%d,c%d) = %d", o.perm, g2, g2, x, at(cwd, g2, x)), in)
			}
		}
		if first1 < 0 {
			first1, first2 = g1, g2
		}
		if at(cmp, g1, first1) != 0 {
			c.Res.Violate("monitor", "preferred-order-dependent", fmt.Sprintf("order %v: Preferred returns c%d, another order returns the inequivalent c%d", o.perm, g1, first1), in)
		}
		if at(cwd, g2, first2) != 0 {
			c.Res.Violate("monitor", mixedKey("preferred-with-density-order-dependent"), fmt.Sprintf("order %v: PreferredWithDensity returns c%d, another order returns the inequivalent c%d", o.perm, g2, first2), in)
		}
	}
	if !densOK {
		c.Res.Notes = append(c.Res.Notes, "a Density() value was NaN/negative; case not sent to the model")
		return
	}
	// ---- Coq case ----
	ct := make([]string, n)
	for i, t := range in.Tips {
		ct[i] = coqTip(t, dens[i])
	}
	maxOrd := 6
	var os_ []string
	for k, o := range ords {
		if k >= maxOrd {
			break
		}
		ps := make([]string, len(o.perm))
		for i, x := range o.perm {
			ps[i] = vh.Nat(x)
		}
		os_ = append(os_, fmt.Sprintf("(%s, %s, %s)", vh.List(ps), onat(o.i1, o.ok), onat(o.i2, o.ok)))
	}
	term := fmt.Sprintf("mkCase (mkSel %s %s) (mkFork %s %s) %s %s %s %s %s %s",
		vh.N(in.K), vh.N(in.Window), vh.N(in.ForkSlot), vh.N(in.ForkBN), vh.N(in.TipBN),
		vh.List(ct), zlist(cmp), zlist(cwd), vh.Bool(deep), vh.List(os_))
	cf.Add(term, in)
}

// ---- generators ---------------------------------------------------------------

func genVRFPool(r *vh.Rng) []string {
	pool := []string{"", "00", "01", "0001", "000000ff", "ff", "0100", "00ff"}
	for i := 0; i < 3; i++ {
		b := r.Bytes(r.Intn(3)*31 + 1 + r.Intn(2)) // lengths 1..2, 32..33, 63..64
		pool = append(pool, vh.Hex(b))
		// same value with leading zeros, and a neighbour value
		pool = append(pool, "0000"+vh.Hex(b))
		nb := append([]byte(nil), b...)
		nb[len(nb)-1] ^= 1
		pool = append(pool, vh.Hex(nb))
	}
	return pool
}

func genCase(r *vh.Rng, kind int) caseIn {
	var in caseIn
	in.K = vh.PickOne(r, []uint64{0, 1, 2, 5, 10, 2160, uint64(r.Intn(50))})
	in.Window = vh.PickOne(r, []uint64{1, 5, 10, 20, 100, 129600, math.MaxUint64, uint64(1 + r.Intn(40))})
	if r.Chance(1, 8) {
		in.Window = 0
	}
	in.ForkSlot = uint64(r.Intn(100))
	if r.Chance(1, 10) {
		in.ForkSlot = math.MaxUint64 - uint64(r.Intn(60)) // forkSlot+window would wrap
	}
	in.ForkBN = uint64(r.Intn(50))
	if r.Chance(1, 12) {
		in.ForkBN = r.Boundary()
	}
	// tip height around fork.bn + k (both sides of the deep/shallow boundary)
	switch r.Intn(6) {
	case 0:
		in.TipBN = in.ForkBN // no rollback
	case 1:
		if in.ForkBN > 0 {
			in.TipBN = in.ForkBN - 1 - uint64(r.Intn(int(min(in.ForkBN, 5)))) // fork ahead of tip
		}
	case 2:
		in.TipBN = in.ForkBN + in.K // exactly k: shallow
	case 3, 4:
		in.TipBN = in.ForkBN + in.K + 1 + uint64(r.Intn(3)) // deep
	default:
		in.TipBN = in.ForkBN + uint64(r.Intn(int(min(in.K+3, 1000))))
	}
	if in.TipBN < in.ForkBN && in.ForkBN-in.TipBN > 1<<62 { // wrapped above
		in.TipBN = math.MaxUint64
	}
	n := r.Intn(6)
	if r.Chance(3, 4) {
		n = 3 + r.Intn(3)
	}
	pool := genVRFPool(r)
	if r.Chance(1, 3) {
		pool = pool[:4] // many VRF ties
	}
	bnBase := in.TipBN
	if r.Chance(1, 6) {
		bnBase = r.Boundary()
	}
	for i := 0; i < n; i++ {
		var t tipIn
		switch kind {
		case 0:
			t.Kind = "w"
		case 1:
			t.Kind = "p"
		default:
			t.Kind = vh.PickOne(r, []string{"w", "p"})
		}
		if r.Chance(1, 25) {
			t.Kind = "nil"
		}
		t.BN = bnBase + uint64(r.Intn(3))
		if t.BN < bnBase {
			t.BN = math.MaxUint64
		}
		if r.Chance(1, 8) {
			t.BN = r.Boundary()
		}
		t.VRF = vh.PickOne(r, pool)
		t.Slot = in.ForkSlot + uint64(r.Intn(200))
		if t.Kind == "w" {
			m := r.Intn(12)
			for j := 0; j < m; j++ {
				var s uint64
				switch r.Intn(6) {
				case 0:
					s = in.ForkSlot // not counted: must be strictly after
				case 1:
					s = in.ForkSlot + in.Window // last slot of the window (may wrap)
				case 2:
					s = in.ForkSlot + in.Window + 1
				case 3:
					s = uint64(r.Intn(int(min(in.ForkSlot, 1<<30) + 1))) // before the fork
				default:
					s = in.ForkSlot + 1 + uint64(r.Intn(int(min(in.Window, 60)+10)))
				}
				t.Slots = append(t.Slots, s)
			}
		}
		if t.Kind == "p" {
			t.SAF = uint64(r.Intn(40))
			t.BAF = uint64(r.Intn(12))
			if r.Chance(1, 10) {
				t.SAF, t.BAF = r.Boundary(), r.Boundary()
			}
		}
		in.Tips = append(in.Tips, t)
	}
	return in
}

// regression corpus: hand-picked
func corpus() []caseIn {
	w := func(bn uint64, vrf string, slots ...uint64) tipIn { return tipIn{Kind: "w", BN: bn, VRF: vrf, Slots: slots} }
	p := func(bn uint64, vrf string, baf, saf uint64) tipIn {
		return tipIn{Kind: "p", BN: bn, VRF: vrf, BAF: baf, SAF: saf}
	}
	return []caseIn{
		{K: 2, Window: 10, ForkSlot: 100, ForkBN: 10, TipBN: 12, Note: "shallow: longer wins although sparser",
			Tips: []tipIn{w(14, "01", 150, 160, 170, 180), w(13, "00", 101, 102, 103)}},
		{K: 2, Window: 10, ForkSlot: 100, ForkBN: 10, TipBN: 13, Note: "deep: denser wins although shorter",
			Tips: []tipIn{w(14, "01", 150, 160, 170, 180), w(13, "00", 101, 102, 103), w(13, "", 101, 102, 110)}},
		{K: 0, Window: 5, ForkSlot: 0, ForkBN: 0, TipBN: 0, Note: "VRF: empty, leading zeros, unequal lengths",
			Tips: []tipIn{w(7, ""), w(7, "00"), w(7, "0000"), w(7, "0001"), w(7, "01")}},
		{K: 1, Window: math.MaxUint64, ForkSlot: math.MaxUint64 - 3, ForkBN: 0, TipBN: 5, Note: "fork slot near 2^64",
			Tips: []tipIn{w(5, "02", math.MaxUint64, math.MaxUint64-1, 3), w(5, "02", math.MaxUint64-2), w(6, "", 1)}},
		{K: 1, Window: 0, ForkSlot: 10, ForkBN: 0, TipBN: 5, Note: "no window configured: legacy ratio for every pair",
			Tips: []tipIn{w(5, "02", 11, 12, 30), p(5, "01", 3, 20), p(9, "", 1, 20)}},
		// the mixed-kind witness (also C41_mixed_refuted in coq/C41/Props.v)
		{K: 1, Window: 10, ForkSlot: 0, ForkBN: 0, TipBN: 5, Note: "mixed kinds: windowed pairs by count, mixed pairs by legacy ratio",
			Tips: []tipIn{w(5, "01", 1, 2), p(5, "01", 1, 2), w(5, "01", 1, 2, 3, 1000)}},
		{K: 3, Window: 7, ForkSlot: 4, ForkBN: 2, TipBN: 9, Note: "nil candidates",
			Tips: []tipIn{{Kind: "nil"}, w(3, "05", 5, 6), {Kind: "nil"}, w(3, "04", 5)}},
		{K: 3, Window: 7, ForkSlot: 4, ForkBN: 2, TipBN: 9, Note: "empty set"},
	}
}

// ---- genesis.go -----------------------------------------------------------------

type gIn struct {
	Window uint64      `json:"window"`
	Frags  [][3]uint64 `json:"frags"` // intersection, tip, blocks
	K      uint64      `json:"k"`
	FNum   int64       `json:"f_num"`
	FDen   int64       `json:"f_den"`
}

func runGenesis(c *vh.Ctx, cf *vh.CaseFile, in gIn) {
	c.Begin(in)
	g := genesis.NewGenesisSelector(genesis.GenesisConfig{SecurityParam: in.K, GenesisWindow: in.Window})
	n := len(in.Frags)
	fr := make([]genesis.ChainFragment, n)
	inwin := make([]uint64, n)
	for i, f := range in.Frags {
		sf := &genesis.SimpleChainFragment{Intersection: f[0], Tip: f[1], Blocks: f[2]}
		fr[i] = sf
		inwin[i] = sf.BlockCountInWindow(in.Window) // float estimate: oracle
	}
	var m []int
	for i := 0; i < n; i++ {
		for j := 0; j < n; j++ {
			m = append(m, g.Compare(fr[i], fr[j]))
		}
	}
	at := func(i, j int) int { return m[i*n+j] }
	canon, _ := json.Marshal(in)
	c.Res.Count("g"+string(canon), n >= 3, fmt.Sprintf("genesis-selector/n=%d", n))
	for i := 0; i < n; i++ {
		for j := 0; j < n; j++ {
			// spec: more blocks in the window first, then more blocks in total
			want := 0
			switch {
			case inwin[i] != inwin[j] && inwin[i] > inwin[j], inwin[i] == inwin[j] && in.Frags[i][2] > in.Frags[j][2]:
				want = 1
			case inwin[i] != inwin[j] || in.Frags[i][2] != in.Frags[j][2]:
				want = -1
			}
			if at(i, j) != want {
				c.Res.Violate("monitor", "genesis-compare-rule", fmt.Sprintf("GenesisSelector.Compare(f%d,f%d) = %d, expected %d", i, j, at(i, j), want), in)
			}
			if at(i, j) != -at(j, i) {
				c.Res.Violate("monitor", "genesis-compare-not-antisymmetric", fmt.Sprintf("f%d,f%d", i, j), in)
			}
			for k := 0; k < n; k++ {
				if at(i, j) >= 0 && at(j, k) >= 0 && at(i, k) < 0 {
					c.Res.Violate("monitor", "genesis-compare-intransitive", fmt.Sprintf("f%d,f%d,f%d", i, j, k), in)
				}
			}
		}
	}
	pi, pok := -1, n > 0
	if best := g.Preferred(fr); best != nil {
		for i := range fr {
			if fr[i] == best {
				pi = i
				break
			}
		}
		for x := 0; x < n; x++ {
			if pi >= 0 && at(pi, x) < 0 {
				c.Res.Violate("monitor", "genesis-preferred-not-maximal", fmt.Sprintf("Preferred returns f%d, f%d is better", pi, x), in)
			}
		}
	}
	// ComputeGenesisWindow = ceil(3k/f), 0 for f <= 0, clamped to 2^64-1
	f := big.NewRat(in.FNum, in.FDen)
	wobs := genesis.ComputeGenesisWindow(in.K, f)
	{
		num := new(big.Int).Mul(big.NewInt(3), new(big.Int).SetUint64(in.K))
		num.Mul(num, f.Denom())
		w := new(big.Int).SetUint64(wobs)
		ok := true
		if f.Sign() <= 0 {
			ok = wobs == 0
		} else {
			hi := new(big.Int).Mul(w, f.Num())
			lo := new(big.Int).Mul(new(big.Int).Sub(w, big.NewInt(1)), f.Num())
			if wobs == math.MaxUint64 {
				ok = num.Cmp(lo) > 0
			} else {
				ok = num.Cmp(hi) <= 0 && num.Cmp(lo) > 0
			}
		}
		if !ok {
			c.Res.Violate("monitor", "genesis-window-not-ceiling", fmt.Sprintf("ComputeGenesisWindow(%d, %s) = %d", in.K, f.String(), wobs), in)
		}
	}
	fs := make([]string, n)
	for i := range in.Frags {
		fs[i] = fmt.Sprintf("(mkFrag %s %s)", vh.N(inwin[i]), vh.N(in.Frags[i][2]))
	}
	cf.Add(fmt.Sprintf("mkGCase %s %s %s %s %s %s %s", vh.List(fs), zlist(m), onat(pi, pok), vh.N(in.K),
		vh.BigZ(f.Num()), vh.BigZ(f.Denom()), vh.N(wobs)), in)
}

func genGenesis(r *vh.Rng) gIn {
	in := gIn{Window: vh.PickOne(r, []uint64{0, 1, 10, 100, 129600}), K: vh.PickOne(r, []uint64{0, 1, 7, 2160, 432, r.Boundary()})}
	n := r.Intn(6)
	for i := 0; i < n; i++ {
		is := uint64(r.Intn(50))
		in.Frags = append(in.Frags, [3]uint64{is, is + uint64(r.Intn(300)) - uint64(r.Intn(2)), uint64(r.Intn(6))})
	}
	in.FNum = int64(r.Intn(40)) - 3
	in.FDen = int64(1 + r.Intn(40))
	if r.Chance(1, 3) {
		in.FNum, in.FDen = 1, 20
	}
	return in
}

func run(c *vh.Ctx) error {
	c.Res.Rule = "candidate sets of 0..5 tips: WindowedChainTip only / SimpleChainTip only / mixed, with nil entries, block numbers within 0..2 of each other (ties) or at uint64 boundaries, VRF outputs from a per-case pool (empty, leading zeros, unequal lengths, neighbours, 32/64 bytes), window slot lists around the window edges (fork slot, fork+window, fork+window+1, before the fork, fork slot near 2^64), tip heights on both sides of fork+k; every pair, every triple and every candidate order (all n! for n<=4, 30 random for n=5) is evaluated; distinct by the full input; non-trivial = at least 3 candidates"
	c.Res.Modelled = []string{"the float64 returned by ChainTip.Density (legacy deep-fork metric) is input data of the model (its IEEE bits, order-isomorphic for the non-negative values that occur); SimpleChainFragment.BlockCountInWindow (float estimate) likewise"}
	cf := c.NewCaseFile("c41", header)
	cf.SetShardSize(c.Pick(60, 150))
	gf := c.NewCaseFile("c41g", header)
	gf.Func, gf.Type = "gmismatches", "gcase"
	gf.SetShardSize(200)
	if c.Replay != "" {
		b, err := os.ReadFile(c.Replay)
		if err != nil {
			return err
		}
		var rp struct {
			Replay json.RawMessage `json:"replay"`
		}
		if err := json.Unmarshal(b, &rp); err != nil {
			return err
		}
		var probe map[string]any
		json.Unmarshal(rp.Replay, &probe)
		if _, isG := probe["frags"]; isG {
			var in gIn
			if err := json.Unmarshal(rp.Replay, &in); err != nil {
				return err
			}
			runGenesis(c, gf, in)
		} else {
			var in caseIn
			if err := json.Unmarshal(rp.Replay, &in); err != nil {
				return err
			}
			runCase(c, cf, in)
		}
		cf.Flush()
		gf.Flush()
		return nil
	}
	for _, in := range corpus() {
		runCase(c, cf, in)
	}
	nn := c.Pick(500, 6000)
	for i := 0; i < nn; i++ {
		// 45% windowed only, 20% plain only, 35% mixed
		k := 0
		switch x := c.Rng.Intn(20); {
		case x < 9:
			k = 0
		case x < 13:
			k = 1
		default:
			k = 2
		}
		runCase(c, cf, genCase(c.Rng, k))
	}
	for i := 0; i < c.Pick(150, 1500); i++ {
		runGenesis(c, gf, genGenesis(c.Rng))
	}
	cf.Flush()
	gf.Flush()
	return nil
}

func main() {
	// the selector warns once per instance when it falls back to the legacy ratio
	slog.SetDefault(slog.New(slog.NewTextHandler(io.Discard, nil)))
	vh.Main(vh.Runner{Property: "C41", Run: run})
}
