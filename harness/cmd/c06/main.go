// C06 - multi-asset values behave as a commutative group up to zeros.
package main

import (
	"bytes"
	"encoding/json"
	"fmt"
	"math/big"
	"os"
	"sort"
	"strings"

	"github.com/blinklabs-io/gouroboros/cbor"
	"github.com/blinklabs-io/gouroboros/ledger/common"

	"verifharness/vh"
)

const header = `From Coq Require Import String.
From V Require Import Lib.Base Lib.Hex Lib.Cbor C06.Model.
Open Scope string_scope.`

// ---------------------------------------------------------------------------
// harness-side value: a Go map written down (keys hex, quantities decimal)

type gent struct {
	Name string `json:"n"`
	Qty  string `json:"q"`
}
type gpol struct {
	Pol string `json:"p"`
	As  []gent `json:"a"`
}
type gma struct {
	Nil  bool   `json:"nil,omitempty"`
	Pols []gpol `json:"pols"`
}

func bi(s string) *big.Int {
	z, ok := new(big.Int).SetString(s, 10)
	if !ok {
		panic("bad int " + s)
	}
	return z
}

func (g gma) coq() string {
	if g.Nil {
		return "None"
	}
	ps := make([]string, len(g.Pols))
	for i, p := range g.Pols {
		as := make([]string, len(p.As))
		for j, a := range p.As {
			as[j] = vh.Pair(vh.Bytes(vh.UnHex(a.Name)), vh.BigZ(bi(a.Qty)))
		}
		ps[i] = vh.Pair(vh.Bytes(vh.UnHex(p.Pol)), vh.List(as))
	}
	return "(Some " + vh.List(ps) + ")"
}

func (g gma) sorted() gma {
	r := gma{Nil: g.Nil}
	for _, p := range g.Pols {
		q := gpol{Pol: p.Pol, As: append([]gent{}, p.As...)}
		sort.Slice(q.As, func(i, j int) bool { return q.As[i].Name < q.As[j].Name })
		r.Pols = append(r.Pols, q)
	}
	sort.Slice(r.Pols, func(i, j int) bool { return r.Pols[i].Pol < r.Pols[j].Pol })
	return r
}

func (g gma) canon() string { b, _ := json.Marshal(g.sorted()); return string(b) }

// independent oracle: the non-zero quantities per (policy, name)
type flat map[string]*big.Int

func (g gma) flat() flat {
	f := flat{}
	for _, p := range g.Pols {
		for _, a := range p.As {
			q := bi(a.Qty)
			if q.Sign() != 0 {
				f[p.Pol+"."+a.Name] = q
			}
		}
	}
	return f
}
func (f flat) add(o flat) flat {
	r := flat{}
	for k, v := range f {
		r[k] = new(big.Int).Set(v)
	}
	for k, v := range o {
		if x, ok := r[k]; ok {
			x.Add(x, v)
			if x.Sign() == 0 {
				delete(r, k)
			}
		} else {
			r[k] = new(big.Int).Set(v)
		}
	}
	return r
}
func (f flat) eq(o flat) bool {
	if len(f) != len(o) {
		return false
	}
	for k, v := range f {
		if w, ok := o[k]; !ok || w.Cmp(v) != 0 {
			return false
		}
	}
	return true
}
func (g gma) hasZero() bool {
	for _, p := range g.Pols {
		if len(p.As) == 0 {
			return true
		}
		for _, a := range p.As {
			if bi(a.Qty).Sign() == 0 {
				return true
			}
		}
	}
	return false
}
func (g gma) negate() gma {
	r := gma{Nil: g.Nil}
	for _, p := range g.Pols {
		q := gpol{Pol: p.Pol}
		for _, a := range p.As {
			q.As = append(q.As, gent{a.Name, new(big.Int).Neg(bi(a.Qty)).String()})
		}
		r.Pols = append(r.Pols, q)
	}
	return r
}

// ---------------------------------------------------------------------------
// the three instantiations of MultiAsset[T]

type num[T int64 | uint64 | *big.Int] struct {
	w    string
	from func(*big.Int) T
	to   func(T) *big.Int
}

var numBig = num[*big.Int]{"Big", func(z *big.Int) *big.Int { return new(big.Int).Set(z) }, func(z *big.Int) *big.Int {
	if z == nil {
		return new(big.Int)
	}
	return new(big.Int).Set(z)
}}
var numI64 = num[int64]{"I64", func(z *big.Int) int64 { return z.Int64() }, func(v int64) *big.Int { return big.NewInt(v) }}
var numU64 = num[uint64]{"U64", func(z *big.Int) uint64 { return z.Uint64() }, func(v uint64) *big.Int { return new(big.Int).SetUint64(v) }}

func build[T int64 | uint64 | *big.Int](nm num[T], g gma) *common.MultiAsset[T] {
	if g.Nil {
		return &common.MultiAsset[T]{}
	}
	data := map[common.Blake2b224]map[cbor.ByteString]T{}
	for _, p := range g.Pols {
		inner := map[cbor.ByteString]T{}
		for _, a := range p.As {
			inner[cbor.NewByteString(vh.UnHex(a.Name))] = nm.from(bi(a.Qty))
		}
		data[common.NewBlake2b224(vh.UnHex(p.Pol))] = inner
	}
	m := common.NewMultiAsset[T](data)
	return &m
}

func extract[T int64 | uint64 | *big.Int](nm num[T], m *common.MultiAsset[T]) gma {
	g := gma{Pols: []gpol{}}
	if enc, err := cbor.Encode(m); err == nil && bytes.Equal(enc, []byte{0xf6}) {
		g.Nil = true
		return g
	}
	for _, p := range m.Policies() {
		q := gpol{Pol: vh.Hex(p.Bytes()), As: []gent{}}
		for _, n := range m.Assets(p) {
			q.As = append(q.As, gent{vh.Hex(n), nm.to(m.Asset(p, n)).String()})
		}
		g.Pols = append(g.Pols, q)
	}
	return g.sorted()
}

// ---------------------------------------------------------------------------
// independent canonical encoder (RFC 8949 4.2.1 bytewise order of encoded keys)

func qtyItem(q *big.Int) *vh.Item {
	if q.Sign() >= 0 {
		if q.IsUint64() {
			return vh.U(q.Uint64())
		}
		return vh.TagOf(2, vh.B(q.Bytes()))
	}
	n := new(big.Int).Sub(big.NewInt(-1), q)
	if n.IsUint64() {
		return vh.NI(n.Uint64())
	}
	return vh.TagOf(3, vh.B(n.Bytes()))
}

func sortPairs(kvs []*vh.Item) []*vh.Item {
	type kv struct{ k, v *vh.Item }
	ps := []kv{}
	for i := 0; i+1 < len(kvs); i += 2 {
		ps = append(ps, kv{kvs[i], kvs[i+1]})
	}
	sort.SliceStable(ps, func(i, j int) bool { return bytes.Compare(ps[i].k.Enc(), ps[j].k.Enc()) < 0 })
	out := []*vh.Item{}
	for _, p := range ps {
		out = append(out, p.k, p.v)
	}
	return out
}

func (g gma) item(sorted bool) *vh.Item {
	if g.Nil {
		return vh.Null()
	}
	outer := []*vh.Item{}
	for _, p := range g.Pols {
		in := []*vh.Item{}
		for _, a := range p.As {
			in = append(in, vh.B(vh.UnHex(a.Name)), qtyItem(bi(a.Qty)))
		}
		if sorted {
			in = sortPairs(in)
		}
		outer = append(outer, vh.B(vh.UnHex(p.Pol)), vh.M(in...))
	}
	if sorted {
		outer = sortPairs(outer)
	}
	return vh.M(outer...)
}

// keysSorted: every map in the item has strictly increasing encoded keys
func keysSorted(it *vh.Item) bool {
	if it.K == vh.KMap {
		for i := 2; i+1 < len(it.Xs); i += 2 {
			if bytes.Compare(it.Xs[i-2].Enc(), it.Xs[i].Enc()) >= 0 {
				return false
			}
		}
	}
	for _, x := range it.Xs {
		if !keysSorted(x) {
			return false
		}
	}
	return true
}

// ---------------------------------------------------------------------------
// scenarios

type scen struct {
	Kind string `json:"kind"` // "alg" (a, b, c algebra + encoding) | "dec" (decode item) | "w" (fixed width add)
	W    string `json:"w,omitempty"`
	A    gma    `json:"a"`
	B    gma    `json:"b"`
	C    gma    `json:"c"`
	Dec  string `json:"dec,omitempty"` // hex of the CBOR to decode
	Dirty []gma  `json:"dirty,omitempty"` // "dec"/"alg": values held by receivers that are decoded INTO (non-fresh destinations)
	Xs    []gma  `json:"xs,omitempty"`    // "seq": operand values, each built ONCE and shared by all programs
	Progs []prog `json:"progs,omitempty"` // "seq": accumulator programs
	Note string `json:"note,omitempty"`
}

// prog is one accumulator: Start -1 = NewMultiAsset(nil), -2 = zero value (nil
// data), i >= 0 = a fresh copy of Xs[i]; Ops index the shared object pool:
// 0..len(Xs)-1 the operands, len(Xs)+k the finished accumulator of program k.
type prog struct {
	Start int   `json:"start"`
	Ops   []int `json:"ops"`
}

type env struct {
	c  *vh.Ctx
	cf *vh.CaseFile
}

func (e *env) viol(key, what string, s scen) {
	e.c.Res.Violate("monitor", key, what, s)
}

// addImpl runs a.Add(&b) on fresh copies; reports a panic
func addImpl[T int64 | uint64 | *big.Int](nm num[T], a, b gma, nilPtr bool) (r gma, panicked bool, pv any) {
	ma := build(nm, a)
	mb := build(nm, b)
	if nilPtr {
		mb = nil
	}
	panicked, pv = vh.Recover(func() { ma.Add(mb) })
	if !panicked {
		r = extract(nm, ma)
	}
	return
}

func cmpImpl(a, b gma) (r bool, panicked bool) {
	ma, mb := build(numBig, a), build(numBig, b)
	panicked, _ = vh.Recover(func() { r = ma.Compare(mb) })
	return
}

func (e *env) caseAdd(w string, a, b, r gma, s scen) {
	e.cf.Add(fmt.Sprintf("CAdd %s %s %s %s", w, a.coq(), b.coq(), r.coq()), s)
}

// add with monitor of the nil-receiver panic; ok=false when no result
func (e *env) add(a, b gma, s scen) (gma, bool) {
	r, p, pv := addImpl(numBig, a, b, false)
	if p {
		key := "add-panics"
		if a.Nil {
			key = "add-nil-data-receiver-panics"
		}
		e.viol(key, fmt.Sprintf("Add panicked (%v): receiver %s, argument %s", pv, a.canon(), b.canon()), s)
		return gma{}, false
	}
	return r, true
}

func (e *env) runAlg(s scen) {
	c := e.c
	a, b, cc := s.A, s.B, s.C
	c.Begin(s)
	nontriv := len(a.flat()) > 0 && len(b.flat()) > 0
	cls := "alg"
	if a.Nil || b.Nil {
		cls = "alg-nil"
	} else if a.flat().eq(b.flat()) {
		cls = "alg-equal-pair"
	}
	c.Res.Count("alg|"+a.canon()+"|"+b.canon()+"|"+cc.canon(), nontriv, cls)
	if nontriv {
		c.Res.Sample(map[string]any{"a": a, "b": b})
	}
	fa, fb, fc := a.flat(), b.flat(), cc.flat()

	// --- Add: model case + integer-sum oracle
	ab, ok1 := e.add(a, b, s)
	ba, ok2 := e.add(b, a, s)
	if ok1 {
		e.caseAdd("Big", a, b, ab, s)
		if !ab.flat().eq(fa.add(fb)) {
			e.viol("add-differs-from-integer-sum", fmt.Sprintf("a.Add(b) = %s, per-asset integer sums differ; a=%s b=%s", ab.canon(), a.canon(), b.canon()), s)
		}
	}
	if ok2 {
		e.caseAdd("Big", b, a, ba, s)
	}
	if ok1 && ok2 {
		if r, p := cmpImpl(ab, ba); p || !r {
			e.viol("add-not-commutative", fmt.Sprintf("a+b=%s, b+a=%s are not Compare-equal", ab.canon(), ba.canon()), s)
		}
	}
	// associativity
	if ok1 {
		abc1, ok3 := e.add(ab, cc, s)
		bc, ok4 := e.add(b, cc, s)
		if ok3 && ok4 {
			abc2, ok5 := e.add(a, bc, s)
			if ok5 {
				if r, p := cmpImpl(abc1, abc2); p || !r || !abc1.flat().eq(fa.add(fb).add(fc)) {
					e.viol("add-not-associative", fmt.Sprintf("(a+b)+c=%s, a+(b+c)=%s", abc1.canon(), abc2.canon()), s)
				}
			}
		}
	}
	// identity (empty map and nil map, both sides) and inverse
	for _, z := range []gma{{Pols: []gpol{}}, {Nil: true}} {
		if r, ok := e.add(a, z, s); ok {
			if eq, p := cmpImpl(r, a); p || !eq {
				e.viol("identity-law", fmt.Sprintf("a+0=%s is not Compare-equal to a=%s", r.canon(), a.canon()), s)
			}
		}
		if r, ok := e.add(z, a, s); ok {
			if z.Nil {
				e.caseAdd("Big", z, a, r, s)
			}
			if eq, p := cmpImpl(r, a); p || !eq {
				e.viol("identity-law", fmt.Sprintf("0+a=%s is not Compare-equal to a=%s", r.canon(), a.canon()), s)
			}
		}
	}
	if r, ok := e.add(a, a.negate(), s); ok {
		if eq, p := cmpImpl(r, gma{Nil: true}); p || !eq || len(r.flat()) != 0 {
			e.viol("inverse-law", fmt.Sprintf("a+(-a)=%s is not Compare-equal to the empty value", r.canon()), s)
		}
	}
	// nil *MultiAsset argument: no change
	if r, p, _ := addImpl(numBig, a, gma{Nil: true}, true); p || r.canon() != extract(numBig, build(numBig, a)).canon() {
		e.viol("add-nil-argument-changes-receiver", "a.Add(nil) changed a or panicked: "+a.canon(), s)
	}

	// --- Compare: model cases + oracle + equivalence laws
	rab, p1 := cmpImpl(a, b)
	rba, p2 := cmpImpl(b, a)
	if p1 || p2 {
		e.viol("compare-panics", "Compare panicked on "+a.canon()+" / "+b.canon(), s)
	} else {
		e.cf.Add(fmt.Sprintf("CCmp %s %s %s", a.coq(), b.coq(), vh.Bool(rab)), s)
		e.cf.Add(fmt.Sprintf("CCmp %s %s %s", b.coq(), a.coq(), vh.Bool(rba)), s)
		want := fa.eq(fb)
		if rab != want {
			key := "compare-true-on-different-values"
			if want {
				key = "compare-false-on-equal-values"
			}
			e.viol(key, fmt.Sprintf("Compare(%s, %s) = %v, equality of non-zero quantities = %v", a.canon(), b.canon(), rab, want), s)
		}
		if rab != rba {
			e.viol("compare-not-symmetric", fmt.Sprintf("Compare(a,b)=%v Compare(b,a)=%v a=%s b=%s", rab, rba, a.canon(), b.canon()), s)
		}
		if r, p := cmpImpl(a, a); p || !r {
			e.viol("compare-not-reflexive", "Compare(a,a) false for "+a.canon(), s)
		}
		rbc, _ := cmpImpl(b, cc)
		rac, _ := cmpImpl(a, cc)
		if rab && rbc && !rac {
			e.viol("compare-not-transitive", fmt.Sprintf("a=%s b=%s c=%s", a.canon(), b.canon(), cc.canon()), s)
		}
		e.cf.Add(fmt.Sprintf("CCmp %s %s %s", a.coq(), cc.coq(), vh.Bool(rac)), s)
	}

	// --- Asset lookups
	ma := build(numBig, a)
	for _, pn := range lookups(c.Rng, a, b) {
		q := numBig.to(ma.Asset(common.NewBlake2b224(vh.UnHex(pn[0])), vh.UnHex(pn[1])))
		e.cf.Add(fmt.Sprintf("CAsset %s %s %s %s", a.coq(), vh.Bytes(vh.UnHex(pn[0])), vh.Bytes(vh.UnHex(pn[1])), vh.BigZ(q)), s)
		want := fa[pn[0]+"."+pn[1]]
		if want == nil {
			want = new(big.Int)
		}
		if q.Cmp(want) != 0 {
			e.viol("asset-lookup-wrong", fmt.Sprintf("Asset(%s,%s)=%s on %s", pn[0], pn[1], q, a.canon()), s)
		}
	}

	// --- encoding: bytes, determinism, sorted keys, decode of the encoding
	e.runEnc(a, s)
}

func lookups(r *vh.Rng, a, b gma) [][2]string {
	out := [][2]string{}
	for _, g := range []gma{a, b} {
		if len(g.Pols) > 0 {
			p := g.Pols[r.Intn(len(g.Pols))]
			if len(p.As) > 0 {
				out = append(out, [2]string{p.Pol, p.As[r.Intn(len(p.As))].Name})
			} else {
				out = append(out, [2]string{p.Pol, ""})
			}
		}
	}
	return out
}

func (e *env) runEnc(a gma, s scen) {
	enc1, err := cbor.Encode(build(numBig, a))
	if err != nil {
		e.viol("encode-fails", "cbor.Encode failed: "+err.Error(), s)
		return
	}
	e.cf.Add(fmt.Sprintf("CEnc %s %s", a.coq(), vh.Bytes(enc1)), s)
	// determinism: the same map built again (fresh Go maps, reversed insertion) encodes identically
	rev := gma{Nil: a.Nil}
	for i := len(a.Pols) - 1; i >= 0; i-- {
		p := a.Pols[i]
		q := gpol{Pol: p.Pol}
		for j := len(p.As) - 1; j >= 0; j-- {
			q.As = append(q.As, p.As[j])
		}
		rev.Pols = append(rev.Pols, q)
	}
	for k := 0; k < 3; k++ {
		enc2, _ := cbor.Encode(build(numBig, rev))
		if !bytes.Equal(enc1, enc2) {
			e.viol("encode-not-deterministic", fmt.Sprintf("two encodings of %s: %x / %x", a.canon(), enc1, enc2), s)
			break
		}
	}
	want := a.item(true).Enc()
	if !bytes.Equal(enc1, want) {
		it, _, perr := vh.ParseItem(enc1)
		if perr != nil || !keysSorted(it) {
			e.viol("encode-keys-not-sorted", fmt.Sprintf("encoding %x of %s does not have bytewise-sorted keys", enc1, a.canon()), s)
		} else {
			e.viol("encode-not-canonical", fmt.Sprintf("encoding %x of %s, canonical form %x", enc1, a.canon(), want), s)
		}
	}
	// decode the encoding
	var d common.MultiAsset[*big.Int]
	if err := d.UnmarshalCBOR(enc1); err != nil {
		e.viol("decode-of-encoding-fails", fmt.Sprintf("decode of %x: %v", enc1, err), s)
		return
	}
	if it, _, perr := vh.ParseItem(enc1); perr == nil {
		s2 := s
		s2.Dec = vh.Hex(enc1)
		if len(s2.Dirty) == 0 {
			s2.Dirty = []gma{s.B, s.C, s.A}
		}
		e.checkDirty(enc1, it, nil, &d, s2)
	}
	dg := extract(numBig, &d)
	if eq, p := cmpImpl(dg, a); p || !eq || !dg.flat().eq(a.flat()) {
		e.viol("decode-encode-not-equal", fmt.Sprintf("decode(encode(%s)) = %s", a.canon(), dg.canon()), s)
	}
	if dg.hasZero() {
		e.viol("decode-keeps-zero-entry", fmt.Sprintf("decode(encode(%s)) = %s keeps a zero quantity or an empty policy", a.canon(), dg.canon()), s)
	}
	if d.CheckForDuplicateKeys() != nil {
		e.viol("decode-of-encoding-flags-duplicates", "duplicate flag set after decoding "+vh.Hex(enc1), s)
	}
	// encodings of Compare-equal values agree once zeros are pruned
	enc3, _ := cbor.Encode(&d)
	nz := gma{Nil: a.Nil, Pols: []gpol{}}
	for _, p := range a.Pols {
		q := gpol{Pol: p.Pol}
		for _, x := range p.As {
			if bi(x.Qty).Sign() != 0 {
				q.As = append(q.As, x)
			}
		}
		if len(q.As) > 0 {
			nz.Pols = append(nz.Pols, q)
		}
	}
	if !bytes.Equal(enc3, nz.item(true).Enc()) {
		e.viol("encode-differs-on-equal-values", fmt.Sprintf("re-encoding %x of the decoded value differs from the canonical encoding of the pruned value", enc3), s)
	}
}

// dirtyReceivers builds destinations that already hold data, one per way a
// MultiAsset comes to hold data: (a) decoded earlier from another encoding,
// (b) NewMultiAsset + Add, (c) the accumulator of an Add sequence over all of ds,
// (d) NewMultiAsset over a literal map.
func dirtyReceivers(ds []gma) (rs []*common.MultiAsset[*big.Int], how []string) {
	for i, d := range ds {
		switch i % 3 {
		case 0:
			var m common.MultiAsset[*big.Int]
			if enc, err := cbor.Encode(build(numBig, d)); err == nil && m.UnmarshalCBOR(enc) == nil {
				rs, how = append(rs, &m), append(how, "previously decoded from "+d.canon())
			}
		case 1:
			m := common.NewMultiAsset[*big.Int](nil)
			if p, _ := vh.Recover(func() { m.Add(build(numBig, d)) }); !p {
				rs, how = append(rs, &m), append(how, "NewMultiAsset(nil)+Add "+d.canon())
			}
		default:
			rs, how = append(rs, build(numBig, d)), append(how, "NewMultiAsset "+d.canon())
		}
	}
	if len(ds) >= 2 {
		m := common.NewMultiAsset[*big.Int](nil)
		if p, _ := vh.Recover(func() {
			for _, d := range ds {
				m.Add(build(numBig, d))
			}
		}); !p {
			rs, how = append(rs, &m), append(how, "accumulator of an Add sequence over all dirty values")
		}
	}
	return
}

// checkDirty: UnmarshalCBOR is a function of the bytes alone.  Decoding raw
// into receivers that already hold data must give exactly what decoding into a
// fresh value gave (error status, data incl. nil-ness, duplicate flag,
// re-encoding) - and therefore what the Coq model says for these bytes: each
// dirty result is also emitted as a CDec case.
func (e *env) checkDirty(raw []byte, it *vh.Item, freshErr error, fresh *common.MultiAsset[*big.Int], s scen) {
	rs, how := dirtyReceivers(s.Dirty)
	var fg gma
	var fenc []byte
	var fdup bool
	if freshErr == nil {
		fg, fdup = extract(numBig, fresh), fresh.CheckForDuplicateKeys() != nil
		fenc, _ = cbor.Encode(fresh)
	}
	for i, m := range rs {
		var derr error
		if p, pv := vh.Recover(func() { derr = m.UnmarshalCBOR(raw) }); p {
			e.viol("decode-panics", fmt.Sprintf("UnmarshalCBOR into a receiver (%s) panicked on %x: %v", how[i], raw, pv), s)
			continue
		}
		e.c.Res.Count(fmt.Sprintf("decdirty|%s|%d|%s", s.Dec, i, how[i]), derr == nil, "dec-dirty-receiver")
		if (derr == nil) != (freshErr == nil) {
			e.viol("decode-dirty-receiver-differs", fmt.Sprintf("decoding %x: fresh receiver error=%v, receiver %s error=%v", raw, freshErr, how[i], derr), s)
			continue
		}
		if derr != nil {
			continue
		}
		dg, dup := extract(numBig, m), m.CheckForDuplicateKeys() != nil
		// the model's answer depends on the bytes only: one dirty result per input goes
		// through the Coq case file as well (all of them through the monitor below)
		if it != nil && i == len(raw)%len(rs) {
			e.cf.Add(fmt.Sprintf("CDec %s (Some (%s, %s))", it.Coq(), dg.coq(), vh.Bool(dup)), s)
		}
		enc, _ := cbor.Encode(m)
		eq := false
		vh.Recover(func() { eq = m.Compare(fresh) && fresh.Compare(m) })
		if !eq || dg.canon() != fg.canon() || dg.Nil != fg.Nil || dup != fdup || !bytes.Equal(enc, fenc) {
			e.viol("decode-dirty-receiver-differs", fmt.Sprintf("decoding %x into a fresh value gives %s (re-encodes %x); into a receiver %s it gives %s (re-encodes %x)", raw, fg.canon(), fenc, how[i], dg.canon(), enc), s)
		}
		if dg.hasZero() {
			e.viol("decode-keeps-zero-entry", fmt.Sprintf("decode(%x) into a receiver %s = %s keeps a zero quantity or an empty policy", raw, how[i], dg.canon()), s)
		}
	}
}

// decode scenario: s.Dec is CBOR inside (or deliberately outside) the modelled fragment
func (e *env) runDec(s scen) {
	c := e.c
	c.Begin(s)
	raw := vh.UnHex(s.Dec)
	it, n, err := vh.ParseItem(raw)
	if err != nil || n != len(raw) {
		return
	}
	var d common.MultiAsset[*big.Int]
	var derr error
	if p, pv := vh.Recover(func() { derr = d.UnmarshalCBOR(raw) }); p {
		e.viol("decode-panics", fmt.Sprintf("UnmarshalCBOR panicked on %x: %v", raw, pv), s)
		return
	}
	c.Res.Count("dec|"+s.Dec, derr == nil, "dec-"+s.Note)
	e.checkDirty(raw, it, derr, &d, s)
	if derr != nil {
		e.cf.Add(fmt.Sprintf("CDec %s None", it.Coq()), s)
		return
	}
	dg := extract(numBig, &d)
	dup := d.CheckForDuplicateKeys() != nil
	e.cf.Add(fmt.Sprintf("CDec %s (Some (%s, %s))", it.Coq(), dg.coq(), vh.Bool(dup)), s)
	if dg.hasZero() {
		e.viol("decode-keeps-zero-entry", fmt.Sprintf("decode(%x) = %s keeps a zero quantity or an empty policy", raw, dg.canon()), s)
	}
	// the decoded value re-encodes canonically and decodes to itself
	enc, _ := cbor.Encode(&d)
	var d2 common.MultiAsset[*big.Int]
	if err := d2.UnmarshalCBOR(enc); err != nil || !d2.Compare(&d) || !d.Compare(&d2) {
		e.viol("decode-encode-not-equal", fmt.Sprintf("value decoded from %x does not survive encode/decode", raw), s)
	}
}

// fixed-width instantiations
func (e *env) runW(s scen) {
	c := e.c
	c.Begin(s)
	c.Res.Count("w|"+s.W+a2(s), true, "width-"+s.W)
	var r gma
	var p bool
	if s.W == "I64" {
		r, p, _ = addImpl(numI64, s.A, s.B, false)
	} else {
		r, p, _ = addImpl(numU64, s.A, s.B, false)
	}
	if p {
		key := "add-panics"
		if s.A.Nil {
			key = "add-nil-data-receiver-panics"
		}
		e.viol(key, "Add panicked on "+s.W+" "+s.A.canon()+" "+s.B.canon(), s)
		return
	}
	e.caseAdd(s.W, s.A, s.B, r, s)
	if !r.flat().eq(s.A.flat().add(s.B.flat())) {
		key := "add-int64-wraps"
		if s.W == "U64" {
			key = "add-uint64-wraps"
		}
		e.viol(key, fmt.Sprintf("MultiAsset[%s].Add: %s + %s = %s, not the per-asset integer sum", strings.ToLower(s.W), s.A.canon(), s.B.canon(), r.canon()), s)
	}
}
func a2(s scen) string { return s.A.canon() + "|" + s.B.canon() }

// ---------------------------------------------------------------------------
// generators

var polPool, namePool []string
var qtyPool []*big.Int

func init() {
	mk := func(first, last byte) string {
		b := make([]byte, 28)
		for i := range b {
			b[i] = 0x11
		}
		b[0], b[27] = first, last
		return vh.Hex(b)
	}
	polPool = []string{mk(0x11, 0x11), mk(0x11, 0x12), mk(0x00, 0xff), mk(0xff, 0x00), mk(0x10, 0x11), strings.Repeat("00", 28)}
	namePool = []string{"", "00", "01", "02", "ff", "0101", "0100", "00ff", strings.Repeat("aa", 23), strings.Repeat("01", 24), strings.Repeat("00", 32), "746f6b656e"}
	p := func(k uint) *big.Int { return new(big.Int).Lsh(big.NewInt(1), k) }
	add := func(z *big.Int, d int64) *big.Int { return new(big.Int).Add(z, big.NewInt(d)) }
	for _, v := range []int64{0, 0, 0, 1, 2, 5, 23, 24, 255, 256, 65535, 65536, 1<<32 - 1, 1 << 32} {
		qtyPool = append(qtyPool, big.NewInt(v), big.NewInt(-v))
	}
	for _, k := range []uint{63, 64, 70, 128} {
		for _, d := range []int64{-1, 0, 1} {
			z := add(p(k), d)
			qtyPool = append(qtyPool, z, new(big.Int).Neg(z))
		}
	}
}

func genQty(r *vh.Rng) *big.Int {
	switch r.Intn(6) {
	case 0:
		return new(big.Int)
	case 1:
		return big.NewInt(int64(r.Intn(7)) - 3)
	case 2:
		z := new(big.Int).SetBytes(r.Bytes(1 + r.Intn(12)))
		if r.Bool() {
			z.Neg(z)
		}
		return z
	default:
		return new(big.Int).Set(qtyPool[r.Intn(len(qtyPool))])
	}
}

func genMA(r *vh.Rng, np, nn int) gma {
	if r.Intn(12) == 0 {
		return gma{Nil: true}
	}
	g := gma{Pols: []gpol{}}
	k := r.Intn(np + 1)
	used := map[string]bool{}
	for i := 0; i < k; i++ {
		p := polPool[r.Intn(len(polPool))]
		if r.Intn(10) == 0 {
			p = vh.Hex(r.Bytes(28))
		}
		if used[p] {
			continue
		}
		used[p] = true
		q := gpol{Pol: p, As: []gent{}}
		un := map[string]bool{}
		m := r.Intn(nn + 1)
		if r.Intn(4) != 0 && m == 0 {
			m = 1
		}
		for j := 0; j < m; j++ {
			n := namePool[r.Intn(len(namePool))]
			if r.Intn(10) == 0 {
				n = vh.Hex(r.Bytes(r.Intn(33)))
			}
			if un[n] {
				continue
			}
			un[n] = true
			q.As = append(q.As, gent{n, genQty(r).String()})
		}
		g.Pols = append(g.Pols, q)
	}
	return g
}

// variant returns a value related to g: equal up to zeros / order, or differing in one place
func variant(r *vh.Rng, g gma) gma {
	v := gma{Nil: false, Pols: []gpol{}}
	for _, p := range g.Pols {
		q := gpol{Pol: p.Pol, As: append([]gent{}, p.As...)}
		v.Pols = append(v.Pols, q)
	}
	pickPol := func() *gpol {
		if len(v.Pols) == 0 {
			return nil
		}
		return &v.Pols[r.Intn(len(v.Pols))]
	}
	freshName := func(p *gpol) (string, bool) {
		for t := 0; t < 8; t++ {
			n := namePool[r.Intn(len(namePool))]
			ok := true
			for _, a := range p.As {
				if a.Name == n {
					ok = false
				}
			}
			if ok {
				return n, true
			}
		}
		return "", false
	}
	freshPol := func() (string, bool) {
		for t := 0; t < 8; t++ {
			n := polPool[r.Intn(len(polPool))]
			ok := true
			for _, a := range v.Pols {
				if a.Pol == n {
					ok = false
				}
			}
			if ok {
				return n, true
			}
		}
		return "", false
	}
	for k := 0; k < 1+r.Intn(2); k++ {
		switch r.Intn(10) {
		case 0: // add a zero entry to an existing policy
			if p := pickPol(); p != nil {
				if n, ok := freshName(p); ok {
					p.As = append(p.As, gent{n, "0"})
				}
			}
		case 1: // add a policy holding only zeros / nothing
			if n, ok := freshPol(); ok {
				q := gpol{Pol: n, As: []gent{}}
				if r.Bool() {
					q.As = append(q.As, gent{namePool[r.Intn(len(namePool))], "0"})
				}
				v.Pols = append(v.Pols, q)
			}
		case 2: // drop the zero entries
			for i := range v.Pols {
				as := []gent{}
				for _, a := range v.Pols[i].As {
					if a.Qty != "0" {
						as = append(as, a)
					}
				}
				v.Pols[i].As = as
			}
		case 3: // change one quantity
			if p := pickPol(); p != nil && len(p.As) > 0 {
				i := r.Intn(len(p.As))
				p.As[i].Qty = new(big.Int).Add(bi(p.As[i].Qty), big.NewInt(int64(r.Intn(3))-1)).String()
			}
		case 4: // replace a non-zero entry by another name with the same quantity (same sizes)
			if p := pickPol(); p != nil && len(p.As) > 0 {
				if n, ok := freshName(p); ok {
					p.As[r.Intn(len(p.As))].Name = n
				}
			}
		case 5: // move a policy's assets to a fresh policy (same sizes)
			if p := pickPol(); p != nil {
				if n, ok := freshPol(); ok {
					p.Pol = n
				}
			}
		case 6: // zero one entry and add a non-zero one elsewhere (policy/asset counts preserved)
			if p := pickPol(); p != nil && len(p.As) > 0 {
				i := r.Intn(len(p.As))
				old := p.As[i].Qty
				p.As[i].Qty = "0"
				if n, ok := freshName(p); ok && old != "0" {
					p.As = append(p.As, gent{n, old})
				}
			}
		case 8: // flip the sign of one quantity
			if p := pickPol(); p != nil && len(p.As) > 0 {
				i := r.Intn(len(p.As))
				p.As[i].Qty = new(big.Int).Neg(bi(p.As[i].Qty)).String()
			}
		case 7: // reverse order
			for i, j := 0, len(v.Pols)-1; i < j; i, j = i+1, j-1 {
				v.Pols[i], v.Pols[j] = v.Pols[j], v.Pols[i]
			}
		default:
		}
	}
	if g.Nil && len(v.Pols) == 0 && r.Bool() {
		v.Nil = true
	}
	return v
}

// decode inputs derived from a value
func genDec(r *vh.Rng, g gma) (string, string) {
	it := g.item(r.Intn(3) != 0)
	note := "canonical"
	if g.Nil {
		return vh.Hex(it.Enc()), "null"
	}
	dupPairs := func(m *vh.Item) {
		// repeat one key with another value (duplicate key, last wins)
		if len(m.Xs) >= 2 {
			i := 2 * r.Intn(len(m.Xs)/2)
			k := m.Xs[i].Clone()
			var v *vh.Item
			if m.Xs[i+1].K == vh.KMap {
				v = vh.M(vh.B([]byte{byte(r.Intn(3))}), qtyItem(genQty(r)))
			} else {
				v = qtyItem(genQty(r))
			}
			pos := 2 * r.Intn(len(m.Xs)/2+1)
			xs := append([]*vh.Item{}, m.Xs[:pos]...)
			xs = append(xs, k, v)
			xs = append(xs, m.Xs[pos:]...)
			m.Xs = xs
			m.F = vh.MinForm(uint64(len(xs) / 2))
		}
	}
	switch r.Intn(10) {
	case 0, 1:
		it = vh.Reform(r, it, vh.ReformOpts{Ints: true, Strings: true, Containers: true, Indef: true, IndefStrings: true, Prob: 40})
		note = "reformed"
	case 2:
		dupPairs(it)
		note = "dup-policy"
	case 3:
		if len(it.Xs) >= 2 {
			dupPairs(it.Xs[2*r.Intn(len(it.Xs)/2)+1])
		}
		note = "dup-name"
	case 4: // bignum forms of small values, leading zeros, null quantities
		for i := 1; i < len(it.Xs); i += 2 {
			in := it.Xs[i]
			for j := 1; j < len(in.Xs); j += 2 {
				q := in.Xs[j]
				switch r.Intn(4) {
				case 0:
					if q.K == vh.KUInt {
						in.Xs[j] = vh.TagOf(2, vh.B(append(make([]byte, r.Intn(3)), new(big.Int).SetUint64(q.N).Bytes()...)))
					} else if q.K == vh.KNInt {
						in.Xs[j] = vh.TagOf(3, vh.B(append(make([]byte, r.Intn(3)), new(big.Int).SetUint64(q.N).Bytes()...)))
					}
				case 1:
					in.Xs[j] = vh.Null()
				case 2:
					in.Xs[j] = &vh.Item{K: vh.KSimple, F: vh.Fimm, N: 23}
				}
			}
		}
		note = "bignum-null"
	case 5: // policy key of the wrong length (array fill: pad / truncate)
		if len(it.Xs) >= 2 {
			i := 2 * r.Intn(len(it.Xs)/2)
			bs := it.Xs[i].Bs
			switch r.Intn(3) {
			case 0:
				bs = bs[:r.Intn(28)]
			case 1:
				bs = append(append([]byte{}, bs...), r.Bytes(1+r.Intn(4))...)
			default:
				bs = append(append([]byte{}, bs[:20]...), 0, 0, 0, 0, 0, 0, 0, 0)[:20+r.Intn(9)]
			}
			it.Xs[i] = vh.B(bs)
		}
		note = "policy-length"
	case 6: // null inner map
		if len(it.Xs) >= 2 {
			it.Xs[2*r.Intn(len(it.Xs)/2)+1] = vh.Null()
		}
		note = "null-inner"
	case 7: // outside the accepted language
		bad := []*vh.Item{vh.T("x"), {K: vh.KFloat, F: vh.F2, N: 0x3c00}, vh.BoolItem(true), vh.A(vh.U(1))}
		tgt := r.Intn(4)
		switch {
		case tgt == 0 || len(it.Xs) < 2:
			it = vh.A(it)
		case tgt == 1:
			it.Xs[2*r.Intn(len(it.Xs)/2)] = vh.T("policy")
		default:
			in := it.Xs[2*r.Intn(len(it.Xs)/2)+1]
			if len(in.Xs) >= 2 {
				j := 2 * r.Intn(len(in.Xs)/2)
				if tgt == 2 {
					in.Xs[j] = vh.PickOne(r, []*vh.Item{vh.T("n"), vh.U(7), vh.A()})
				} else {
					in.Xs[j+1] = vh.PickOne(r, bad)
				}
			} else {
				it = vh.U(0)
			}
		}
		note = "rejected-class"
	default:
	}
	return vh.Hex(it.Enc()), note
}

// genDirty: what the destination of a decode already holds, relative to the
// value g being decoded: a superset (g plus a policy g lacks), an overlapping
// variant, a disjoint value (random policy ids), the empty map, a random one.
func genDirty(r *vh.Rng, g gma) []gma {
	nz := func(x gma) gma { // make every quantity non-zero so that stale entries are visible
		for i := range x.Pols {
			for j := range x.Pols[i].As {
				if x.Pols[i].As[j].Qty == "0" {
					x.Pols[i].As[j].Qty = "9"
				}
			}
		}
		return x
	}
	super := gma{Pols: []gpol{}}
	for _, p := range g.Pols {
		super.Pols = append(super.Pols, gpol{Pol: p.Pol, As: append([]gent{}, p.As...)})
	}
	super.Pols = append(super.Pols, gpol{Pol: vh.Hex(r.Bytes(28)), As: []gent{{namePool[r.Intn(len(namePool))], "7"}}})
	if len(super.Pols) > 1 && r.Bool() { // and an extra asset inside a policy g has
		super.Pols[0].As = append(super.Pols[0].As, gent{vh.Hex(r.Bytes(5)), "3"})
	}
	disjoint := gma{Pols: []gpol{{Pol: vh.Hex(r.Bytes(28)), As: []gent{{"01", "1"}, {"02", "-2"}}}}}
	all := []gma{nz(super), nz(variant(r, g)), disjoint, {Pols: []gpol{}}, nz(genMA(r, 3, 3)), {Nil: true}}
	// three of them, rotated so that every construction (decoded / Add / literal) meets every relation
	k := r.Intn(len(all))
	return []gma{all[k], all[(k+1+r.Intn(2))%len(all)], all[(k+3+r.Intn(2))%len(all)]}
}

func genWidth(r *vh.Rng, w string) gma {
	g := genMA(r, 2, 2)
	var pool []*big.Int
	max := new(big.Int).Lsh(big.NewInt(1), 63)
	if w == "I64" {
		pool = []*big.Int{big.NewInt(0), big.NewInt(1), big.NewInt(-1), new(big.Int).Sub(max, big.NewInt(1)), new(big.Int).Neg(max), big.NewInt(1 << 62), big.NewInt(-(1 << 62)), big.NewInt(int64(r.U64() >> 1))}
	} else {
		m64 := new(big.Int).SetUint64(^uint64(0))
		pool = []*big.Int{big.NewInt(0), big.NewInt(1), big.NewInt(2), m64, max, new(big.Int).SetUint64(r.U64()), new(big.Int).Sub(m64, big.NewInt(1))}
	}
	for i := range g.Pols {
		for j := range g.Pols[i].As {
			g.Pols[i].As[j].Qty = pool[r.Intn(len(pool))].String()
		}
	}
	return g
}

func corpus() []scen {
	p1, p2 := polPool[0], polPool[1]
	one := func(p, n, q string) gma { return gma{Pols: []gpol{{p, []gent{{n, q}}}}} }
	empty := gma{Pols: []gpol{}}
	return []scen{
		{Kind: "alg", A: gma{Nil: true}, B: one(p1, "01", "5"), C: empty, Note: "nil receiver"},
		{Kind: "alg", A: one(p1, "01", "5"), B: gma{Pols: []gpol{{p1, []gent{{"01", "5"}, {"02", "0"}}}}}, C: gma{Pols: []gpol{{p1, []gent{{"01", "5"}}}, {p2, []gent{}}}}, Note: "equal up to zeros"},
		{Kind: "alg", A: gma{Pols: []gpol{{p1, []gent{{"01", "5"}, {"02", "0"}}}}}, B: gma{Pols: []gpol{{p1, []gent{{"01", "0"}, {"02", "5"}}}}}, C: empty, Note: "same sizes, zero on different sides"},
		{Kind: "alg", A: gma{Pols: []gpol{{p1, []gent{{"01", "5"}}}, {p2, []gent{{"01", "0"}}}}}, B: gma{Pols: []gpol{{p1, []gent{{"01", "0"}}}, {p2, []gent{{"01", "5"}}}}}, C: empty, Note: "same sizes, zero policy on different sides"},
		{Kind: "alg", A: one(p1, "01", "18446744073709551615"), B: one(p1, "01", "1"), C: one(p1, "01", "-18446744073709551616"), Note: "2^64 boundary"},
		{Kind: "alg", A: one(p1, "01", "9223372036854775807"), B: one(p1, "01", "1"), C: one(p1, "01", "-9223372036854775809"), Note: "2^63 boundary"},
		{Kind: "alg", A: gma{Pols: []gpol{{p1, []gent{{strings.Repeat("aa", 23), "1"}, {strings.Repeat("01", 24), "2"}, {"ff", "3"}, {"", "4"}}}}}, B: empty, C: empty, Note: "key order: length first"},
		{Kind: "w", W: "I64", A: one(p1, "01", "9223372036854775807"), B: one(p1, "01", "1"), Note: "MaxInt64+1"},
		{Kind: "w", W: "U64", A: one(p1, "01", "18446744073709551615"), B: one(p1, "01", "1"), Note: "MaxUint64+1"},
		{Kind: "w", W: "I64", A: one(p1, "01", "5"), B: one(p2, "01", "-7"), Note: "in range"},
		{Kind: "seq", Xs: []gma{one(p1, "01", "5"), one(p1, "01", "7")}, Progs: []prog{{-1, []int{0, 1}}, {-1, []int{1, 0}}}, Note: "0+a+b vs 0+b+a on shared objects"},
		{Kind: "seq", Xs: []gma{one(p1, "02", "1"), one(p1, "01", "7"), one(p1, "01", "100")}, Progs: []prog{{0, []int{1, 2}}, {-1, []int{1, 2}}, {-1, []int{0, 4}}, {-2, []int{2, 1, 0}}}, Note: "(a+b)+c vs a+(b+c), b and c share an asset a lacks"},
		{Kind: "dec", Dec: "a0", Note: "empty", Dirty: []gma{one(p1, "01", "5"), one(p2, "02", "6"), empty}},
		{Kind: "dec", Dec: "a1581c" + p1 + "a1410105", Note: "canonical", Dirty: []gma{one(p2, "01", "5"), gma{Pols: []gpol{{p1, []gent{{"01", "1"}, {"02", "2"}}}, {p2, []gent{{"01", "3"}}}}}, one(p1, "02", "9")}},
		{Kind: "dec", Dec: "f6", Note: "null"},
		{Kind: "dec", Dec: "bfff", Note: "indef-empty"},
		{Kind: "dec", Dec: "a1581c" + p1 + "a2410101410100", Note: "dup-name"},
		{Kind: "dec", Dec: "a2581c" + p1 + "a1410101581c" + p1 + "a1410202", Note: "dup-policy"},
		{Kind: "dec", Dec: "a143010203a1410101", Note: "policy-length"},
		{Kind: "dec", Dec: "a1581c" + p1 + "a14101c2420000", Note: "bignum-null"},
		{Kind: "dec", Dec: "a1581c" + p1 + "a14101f90000", Note: "rejected-class"},
	}
}

// runSeq: multi-step Add sequences on SHARED operand objects.  After every
// step: accumulator against the integer-sum oracle and the Coq model (CSeq),
// every object of the pool against the value it had when it was created
// (Add must not modify its argument, nor earlier results), and at the end
// programs over the same operand multiset against each other.
func (e *env) runSeq(s scen) {
	c := e.c
	c.Begin(s)
	canon := "seq"
	for _, x := range s.Xs {
		canon += "|" + x.canon()
	}
	canon += fmt.Sprintf("|%v", s.Progs)
	c.Res.Count(canon, len(s.Xs) >= 2, "seq")
	objs := []*common.MultiAsset[*big.Int]{}
	vals := []gma{} // the value each pool object had when it entered the pool
	for _, x := range s.Xs {
		objs = append(objs, build(numBig, x))
		vals = append(vals, extract(numBig, build(numBig, x)))
	}
	checkPool := func(where string) bool {
		for i, o := range objs {
			now := extract(numBig, o)
			if now.canon() != vals[i].canon() || now.Nil != vals[i].Nil {
				kind := "operand"
				if i >= len(s.Xs) {
					kind = "earlier result"
				}
				e.viol("add-mutates-other-value", fmt.Sprintf("%s: %s #%d was %s and is now %s although it was only used as an argument of Add (or not at all)", where, kind, i, vals[i].canon(), now.canon()), s)
				return false
			}
		}
		return true
	}
	type fin struct {
		key string
		val gma
	}
	fins := []fin{}
	for pi, pr := range s.Progs {
		var acc *common.MultiAsset[*big.Int]
		var start gma
		switch {
		case pr.Start == -1:
			m := common.NewMultiAsset[*big.Int](nil)
			acc, start = &m, gma{Pols: []gpol{}}
		case pr.Start == -2:
			acc, start = &common.MultiAsset[*big.Int]{}, gma{Nil: true}
		default:
			acc, start = build(numBig, s.Xs[pr.Start]), vals[pr.Start]
		}
		want := start.flat()
		used := []string{}
		multiset := []int{pr.Start}
		okProg := true
		for si, op := range pr.Ops {
			if op < 0 || op >= len(objs) {
				okProg = false
				break
			}
			if p, pv := vh.Recover(func() { acc.Add(objs[op]) }); p {
				key := "add-panics"
				if start.Nil {
					key = "add-nil-data-receiver-panics"
				}
				e.viol(key, fmt.Sprintf("program %d step %d: Add panicked: %v", pi, si, pv), s)
				okProg = false
				break
			}
			want = want.add(vals[op].flat())
			used = append(used, vals[op].coq())
			multiset = append(multiset, op)
			got := extract(numBig, acc)
			where := fmt.Sprintf("program %d step %d", pi, si)
			if !got.flat().eq(want) {
				e.viol("add-sequence-differs-from-integer-sum", fmt.Sprintf("%s: accumulator is %s, the per-asset integer sum of start and operands differs", where, got.canon()), s)
			}
			e.cf.Add(fmt.Sprintf("CSeq Big %s %s %s", start.coq(), vh.List(used), got.coq()), s)
			checkPool(where) // keep going: the model (CSeq) and the order check then see the damage too
		}
		if !okProg {
			return
		}
		objs = append(objs, acc)
		v := extract(numBig, acc)
		vals = append(vals, v)
		sort.Ints(multiset)
		fins = append(fins, fin{fmt.Sprint(multiset), v})
	}
	checkPool("end")
	// programs over the same start and operand multiset must agree (commutativity / associativity with reused objects)
	for i := range fins {
		for j := i + 1; j < len(fins); j++ {
			if fins[i].key == fins[j].key {
				if eq, p := cmpImpl(fins[i].val, fins[j].val); p || !eq {
					e.viol("add-order-dependent", fmt.Sprintf("programs %d and %d add the same operands in different orders: %s vs %s", i, j, fins[i].val.canon(), fins[j].val.canon()), s)
				}
			}
		}
	}
}

// genSeq: few operands with heavily overlapping keys, several accumulators over them
func genSeq(r *vh.Rng) scen {
	pols := []string{polPool[0], polPool[1]}
	names := []string{"01", "02", "746f6b"}
	k := 2 + r.Intn(3)
	xs := make([]gma, k)
	for i := range xs {
		g := gma{Pols: []gpol{}}
		for _, p := range pols {
			if r.Intn(3) == 0 {
				continue
			}
			q := gpol{Pol: p, As: []gent{}}
			for _, n := range names {
				if r.Intn(3) != 0 {
					var z *big.Int
					if r.Intn(3) == 0 {
						z = genQty(r)
					} else {
						z = big.NewInt(int64(1 + r.Intn(100)))
					}
					q.As = append(q.As, gent{n, z.String()})
				}
			}
			g.Pols = append(g.Pols, q)
		}
		xs[i] = g
	}
	perm := func() []int {
		p := make([]int, k)
		for i := range p {
			p[i] = i
		}
		for i := k - 1; i > 0; i-- {
			j := r.Intn(i + 1)
			p[i], p[j] = p[j], p[i]
		}
		return p
	}
	start := -1
	if r.Intn(4) == 0 {
		start = -2
	}
	progs := []prog{}
	fwd := perm()
	rev := make([]int, k)
	for i := range fwd {
		rev[k-1-i] = fwd[i]
	}
	progs = append(progs, prog{start, fwd}, prog{start, rev}, prog{start, perm()})
	// associativity: (x0 + x1) + x2 with a copy of x0 as accumulator, and x0 + (x1 + x2) through an earlier result
	if k >= 3 {
		progs = append(progs, prog{0, []int{1, 2}})
		progs = append(progs, prog{-1, []int{1, 2}})       // bc, becomes pool object k+4
		progs = append(progs, prog{0, []int{k + 4}})       // a + bc
		progs = append(progs, prog{-1, []int{0, k + 4}})   // 0 + a + bc
	}
	// an operand added twice, and an accumulator that keeps growing after having been used as operand source
	progs = append(progs, prog{-1, []int{0, 0, 1}})
	return scen{Kind: "seq", Xs: xs, Progs: progs}
}

func (e *env) runScen(s scen) {
	switch s.Kind {
	case "seq":
		e.runSeq(s)
	case "alg":
		e.runAlg(s)
	case "dec":
		e.runDec(s)
	case "w":
		e.runW(s)
	}
}

func run(c *vh.Ctx) error {
	c.Res.Rule = "triples (a,b,c) of maps with <=4 policies x <=4 names from pools built to collide and to exercise key order (names of length 0,1,2,23,24,32; policies differing in first/last byte), quantities from {0,+-1,..,2^32,+-2^63(+-1),+-2^64(+-1),+-2^70,+-2^128,random}; nil maps, empty policies; b is with probability 1/2 a variant of a (zero entries added/dropped, reordered, one quantity changed, entry renamed keeping sizes); decode inputs are encodings re-formed (non-minimal/indefinite headers, chunked strings), with duplicate keys, bignum/null quantities, short/long policy keys, null inner maps, and a rejected class; distinct by canonical JSON of the triple / hex of the input; non-trivial = both operands have a non-zero entry (algebra) or the input decodes (decode); op sequences: 2-4 operand OBJECTS with overlapping keys built once and shared by 4-8 accumulator programs (permutations from the empty / nil value, (a+b)+c vs a+(b+c) through an earlier result used as operand, an operand added twice), checked after every step; every decode input (and every encoding in the algebra scenarios) is decoded into a fresh value AND into 3-4 receivers that already hold data (decoded earlier / NewMultiAsset+Add / literal / Add-sequence accumulator; superset, overlapping, disjoint, empty, nil relative to the decoded value)"
	c.Res.Modelled = []string{
		"Go maps are association lists with distinct keys in arbitrary order; theorems quantify over all orders",
		"byte level CBOR parsing is not part of this model: the decoder model works on the syntax tree (coq/Lib/Cbor.v item) that the harness obtains with its own parser from the bytes given to UnmarshalCBOR; the encoder model produces an item whose Lib.Cbor.enc bytes are compared with cbor.Encode",
		"nil *big.Int quantities placed by a caller through NewMultiAsset are not modelled (never produced by Add or the decoder after pruning)",
		"decoder fragment: items outside maps/byte-string keys/integer,bignum,null quantities are only covered by a sampled rejected class (unregistered tags around values are skipped by fxamacker and are not modelled)",
	}
	cf := c.NewCaseFile("c06", header)
	cf.SetShardSize(c.Pick(150, 300))
	e := &env{c, cf}
	if c.Replay != "" {
		b, err := os.ReadFile(c.Replay)
		if err != nil {
			return err
		}
		var rp struct {
			Replay scen `json:"replay"`
		}
		if err := json.Unmarshal(b, &rp); err != nil {
			return err
		}
		e.runScen(rp.Replay)
		cf.Flush()
		return nil
	}
	for _, s := range corpus() {
		e.runScen(s)
	}
	r := c.Rng
	for i := 0; i < c.Pick(90, 1200); i++ {
		np, nn := 1+r.Intn(4), 1+r.Intn(4)
		a := genMA(r, np, nn)
		var b gma
		if r.Bool() {
			b = variant(r, a)
		} else {
			b = genMA(r, np, nn)
		}
		var cc gma
		switch r.Intn(3) {
		case 0:
			cc = variant(r, b)
		case 1:
			cc = variant(r, a)
		default:
			cc = genMA(r, 2, 2)
		}
		e.runScen(scen{Kind: "alg", A: a, B: b, C: cc})
	}
	for i := 0; i < c.Pick(260, 4000); i++ {
		g := genMA(r, 1+r.Intn(4), 1+r.Intn(4))
		h, note := genDec(r, g)
		e.runScen(scen{Kind: "dec", Dec: h, Note: note, Dirty: genDirty(r, g)})
	}
	for i := 0; i < c.Pick(60, 800); i++ {
		e.runScen(genSeq(r))
	}
	for i := 0; i < c.Pick(40, 600); i++ {
		w := "I64"
		if r.Bool() {
			w = "U64"
		}
		e.runScen(scen{Kind: "w", W: w, A: genWidth(r, w), B: genWidth(r, w)})
	}
	cf.Flush()
	return nil
}

func main() { vh.Main(vh.Runner{Property: "C06", Run: run}) }
