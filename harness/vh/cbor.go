package vh

import (
	"encoding/binary"
	"errors"
	"fmt"
	"strings"
)

// Item mirrors coq/Lib/Cbor.v `item`: a CBOR syntax tree that keeps every
// encoding choice (argument width, definite/indefinite).  It is independent
// of fxamacker/cbor and of the repository's cbor package.
type Form int

const (
	Fimm Form = iota
	F1
	F2
	F4
	F8
	Findef Form = -1 // only for Arr/Map headers
)

type Kind int

const (
	KUInt Kind = iota
	KNInt
	KBStr
	KBStrI
	KTStr
	KTStrI
	KArr
	KMap
	KTag
	KSimple
	KFloat
)

type Chunk struct {
	F  Form
	Bs []byte
}

type Item struct {
	K      Kind
	F      Form    // argument form; Findef for indefinite Arr/Map
	N      uint64  // UInt/NInt value, Tag number, Simple value, Float bits
	Bs     []byte  // definite strings
	Chunks []Chunk // indefinite strings
	Xs     []*Item // Arr elements, Tag content (1), Map k,v,k,v,...
}

func MinForm(n uint64) Form {
	switch {
	case n < 24:
		return Fimm
	case n < 1<<8:
		return F1
	case n < 1<<16:
		return F2
	case n < 1<<32:
		return F4
	}
	return F8
}

func Fits(f Form, n uint64) bool {
	switch f {
	case Fimm:
		return n < 24
	case F1:
		return n < 1<<8
	case F2:
		return n < 1<<16
	case F4:
		return n < 1<<32
	}
	return true
}

func encHead(mt byte, f Form, n uint64) []byte {
	switch f {
	case Fimm:
		return []byte{mt<<5 | byte(n)}
	case F1:
		return []byte{mt<<5 | 24, byte(n)}
	case F2:
		b := []byte{mt<<5 | 25, 0, 0}
		binary.BigEndian.PutUint16(b[1:], uint16(n))
		return b
	case F4:
		b := []byte{mt<<5 | 26, 0, 0, 0, 0}
		binary.BigEndian.PutUint32(b[1:], uint32(n))
		return b
	default:
		b := []byte{mt<<5 | 27, 0, 0, 0, 0, 0, 0, 0, 0}
		binary.BigEndian.PutUint64(b[1:], n)
		return b
	}
}

func (i *Item) Enc() []byte {
	switch i.K {
	case KUInt:
		return encHead(0, i.F, i.N)
	case KNInt:
		return encHead(1, i.F, i.N)
	case KBStr:
		return append(encHead(2, i.F, uint64(len(i.Bs))), i.Bs...)
	case KTStr:
		return append(encHead(3, i.F, uint64(len(i.Bs))), i.Bs...)
	case KBStrI, KTStrI:
		mt := byte(2)
		if i.K == KTStrI {
			mt = 3
		}
		out := []byte{mt<<5 | 31}
		for _, c := range i.Chunks {
			out = append(out, encHead(mt, c.F, uint64(len(c.Bs)))...)
			out = append(out, c.Bs...)
		}
		return append(out, 0xff)
	case KArr, KMap:
		mt := byte(4)
		n := uint64(len(i.Xs))
		if i.K == KMap {
			mt = 5
			n /= 2
		}
		var out []byte
		if i.F == Findef {
			out = []byte{mt<<5 | 31}
		} else {
			out = encHead(mt, i.F, n)
		}
		for _, x := range i.Xs {
			out = append(out, x.Enc()...)
		}
		if i.F == Findef {
			out = append(out, 0xff)
		}
		return out
	case KTag:
		return append(encHead(6, i.F, i.N), i.Xs[0].Enc()...)
	case KSimple, KFloat:
		return encHead(7, i.F, i.N)
	}
	panic("bad kind")
}

var formNames = map[Form]string{Fimm: "Fimm", F1: "F1", F2: "F2", F4: "F4", F8: "F8"}

func optForm(f Form) string {
	if f == Findef {
		return "None"
	}
	return "(Some " + formNames[f] + ")"
}

// Coq prints the item as a term of coq/Lib/Cbor.v `item`.
func (i *Item) Coq() string {
	var sb strings.Builder
	i.coq(&sb)
	return sb.String()
}

func (i *Item) coq(sb *strings.Builder) {
	switch i.K {
	case KUInt:
		fmt.Fprintf(sb, "(UInt %s %d)", formNames[i.F], i.N)
	case KNInt:
		fmt.Fprintf(sb, "(NInt %s %d)", formNames[i.F], i.N)
	case KBStr:
		fmt.Fprintf(sb, "(BStr %s %s)", formNames[i.F], Bytes(i.Bs))
	case KTStr:
		fmt.Fprintf(sb, "(TStr %s %s)", formNames[i.F], Bytes(i.Bs))
	case KBStrI, KTStrI:
		if i.K == KBStrI {
			sb.WriteString("(BStrI [")
		} else {
			sb.WriteString("(TStrI [")
		}
		for k, c := range i.Chunks {
			if k > 0 {
				sb.WriteString("; ")
			}
			fmt.Fprintf(sb, "(%s, %s)", formNames[c.F], Bytes(c.Bs))
		}
		sb.WriteString("])")
	case KArr:
		fmt.Fprintf(sb, "(Arr %s [", optForm(i.F))
		for k, x := range i.Xs {
			if k > 0 {
				sb.WriteString("; ")
			}
			x.coq(sb)
		}
		sb.WriteString("])")
	case KMap:
		fmt.Fprintf(sb, "(Map %s [", optForm(i.F))
		for k := 0; k+1 < len(i.Xs); k += 2 {
			if k > 0 {
				sb.WriteString("; ")
			}
			sb.WriteString("(")
			i.Xs[k].coq(sb)
			sb.WriteString(", ")
			i.Xs[k+1].coq(sb)
			sb.WriteString(")")
		}
		sb.WriteString("])")
	case KTag:
		fmt.Fprintf(sb, "(Tag %s %d ", formNames[i.F], i.N)
		i.Xs[0].coq(sb)
		sb.WriteString(")")
	case KSimple:
		fmt.Fprintf(sb, "(Simple %s %d)", formNames[i.F], i.N)
	case KFloat:
		fmt.Fprintf(sb, "(Float %s %d)", formNames[i.F], i.N)
	}
}

// constructors (minimal forms)
func U(n uint64) *Item  { return &Item{K: KUInt, F: MinForm(n), N: n} }
func NI(n uint64) *Item { return &Item{K: KNInt, F: MinForm(n), N: n} }
func I64(v int64) *Item {
	if v >= 0 {
		return U(uint64(v))
	}
	return NI(uint64(-1 - v))
}
func B(bs []byte) *Item { return &Item{K: KBStr, F: MinForm(uint64(len(bs))), Bs: bs} }
func T(s string) *Item  { return &Item{K: KTStr, F: MinForm(uint64(len(s))), Bs: []byte(s)} }
func A(xs ...*Item) *Item {
	return &Item{K: KArr, F: MinForm(uint64(len(xs))), Xs: xs}
}
func M(kvs ...*Item) *Item {
	return &Item{K: KMap, F: MinForm(uint64(len(kvs) / 2)), Xs: kvs}
}
func TagOf(t uint64, x *Item) *Item { return &Item{K: KTag, F: MinForm(t), N: t, Xs: []*Item{x}} }
func BoolItem(b bool) *Item {
	if b {
		return &Item{K: KSimple, F: Fimm, N: 21}
	}
	return &Item{K: KSimple, F: Fimm, N: 20}
}
func Null() *Item { return &Item{K: KSimple, F: Fimm, N: 22} }

// ---------------------------------------------------------------------------
// form-preserving parser (independent walker)

var ErrShort = errors.New("cbor: unexpected end of input")
var ErrBad = errors.New("cbor: malformed")

func readArg(ai byte, b []byte) (Form, uint64, int, error) {
	switch {
	case ai < 24:
		return Fimm, uint64(ai), 0, nil
	case ai == 24:
		if len(b) < 1 {
			return 0, 0, 0, ErrShort
		}
		return F1, uint64(b[0]), 1, nil
	case ai == 25:
		if len(b) < 2 {
			return 0, 0, 0, ErrShort
		}
		return F2, uint64(binary.BigEndian.Uint16(b)), 2, nil
	case ai == 26:
		if len(b) < 4 {
			return 0, 0, 0, ErrShort
		}
		return F4, uint64(binary.BigEndian.Uint32(b)), 4, nil
	case ai == 27:
		if len(b) < 8 {
			return 0, 0, 0, ErrShort
		}
		return F8, binary.BigEndian.Uint64(b), 8, nil
	}
	return 0, 0, 0, ErrBad
}

// ParseItem parses one item from the front of b and returns it with the
// number of bytes consumed.  depth bounds recursion.
func ParseItem(b []byte) (*Item, int, error) { return parseItem(b, 0) }

func parseItem(b []byte, depth int) (*Item, int, error) {
	if depth > 512 {
		return nil, 0, ErrBad
	}
	if len(b) == 0 {
		return nil, 0, ErrShort
	}
	mt, ai := b[0]>>5, b[0]&31
	if ai == 31 {
		switch mt {
		case 2, 3:
			it := &Item{K: KBStrI}
			if mt == 3 {
				it.K = KTStrI
			}
			p := 1
			for {
				if p >= len(b) {
					return nil, 0, ErrShort
				}
				if b[p] == 0xff {
					return it, p + 1, nil
				}
				if b[p]>>5 != mt || b[p]&31 == 31 {
					return nil, 0, ErrBad
				}
				f, n, k, err := readArg(b[p]&31, b[p+1:])
				if err != nil {
					return nil, 0, err
				}
				p += 1 + k
				if uint64(len(b)-p) < n {
					return nil, 0, ErrShort
				}
				it.Chunks = append(it.Chunks, Chunk{f, append([]byte(nil), b[p:p+int(n)]...)})
				p += int(n)
			}
		case 4, 5:
			it := &Item{K: KArr, F: Findef}
			if mt == 5 {
				it.K = KMap
			}
			p := 1
			for {
				if p >= len(b) {
					return nil, 0, ErrShort
				}
				if b[p] == 0xff {
					if it.K == KMap && len(it.Xs)%2 != 0 {
						return nil, 0, ErrBad
					}
					return it, p + 1, nil
				}
				x, k, err := parseItem(b[p:], depth+1)
				if err != nil {
					return nil, 0, err
				}
				it.Xs = append(it.Xs, x)
				p += k
			}
		default:
			return nil, 0, ErrBad
		}
	}
	f, n, k, err := readArg(ai, b[1:])
	if err != nil {
		return nil, 0, err
	}
	p := 1 + k
	switch mt {
	case 0:
		return &Item{K: KUInt, F: f, N: n}, p, nil
	case 1:
		return &Item{K: KNInt, F: f, N: n}, p, nil
	case 2, 3:
		if uint64(len(b)-p) < n {
			return nil, 0, ErrShort
		}
		it := &Item{K: KBStr, F: f, Bs: append([]byte(nil), b[p:p+int(n)]...)}
		if mt == 3 {
			it.K = KTStr
		}
		return it, p + int(n), nil
	case 4, 5:
		it := &Item{K: KArr, F: f}
		cnt := n
		if mt == 5 {
			it.K = KMap
			if n > 1<<62 {
				return nil, 0, ErrShort
			}
			cnt = 2 * n
		}
		if cnt > uint64(len(b)) {
			return nil, 0, ErrShort
		}
		for j := uint64(0); j < cnt; j++ {
			x, k, err := parseItem(b[p:], depth+1)
			if err != nil {
				return nil, 0, err
			}
			it.Xs = append(it.Xs, x)
			p += k
		}
		return it, p, nil
	case 6:
		x, k, err := parseItem(b[p:], depth+1)
		if err != nil {
			return nil, 0, err
		}
		return &Item{K: KTag, F: f, N: n, Xs: []*Item{x}}, p + k, nil
	default:
		if f == Fimm || f == F1 {
			if f == F1 && n < 32 {
				return nil, 0, ErrBad
			}
			return &Item{K: KSimple, F: f, N: n}, p, nil
		}
		return &Item{K: KFloat, F: f, N: n}, p, nil
	}
}

// Clone deep-copies an item.
func (i *Item) Clone() *Item {
	c := *i
	c.Bs = append([]byte(nil), i.Bs...)
	c.Chunks = append([]Chunk(nil), i.Chunks...)
	c.Xs = make([]*Item, len(i.Xs))
	for k, x := range i.Xs {
		c.Xs[k] = x.Clone()
	}
	if len(i.Xs) == 0 {
		c.Xs = nil
	}
	return &c
}

// Minimal reports whether every header in the tree uses the shortest
// definite form (the shape the existing tests exercise).
func (i *Item) Minimal() bool {
	switch i.K {
	case KUInt, KNInt, KTag:
		if i.F != MinForm(i.N) {
			return false
		}
	case KBStr, KTStr:
		return i.F == MinForm(uint64(len(i.Bs)))
	case KBStrI, KTStrI:
		return false
	case KArr:
		if i.F != MinForm(uint64(len(i.Xs))) {
			return false
		}
	case KMap:
		if i.F != MinForm(uint64(len(i.Xs)/2)) {
			return false
		}
	}
	for _, x := range i.Xs {
		if !x.Minimal() {
			return false
		}
	}
	return true
}

// ReformOpts controls which encoding choices Reform may change.
type ReformOpts struct {
	Ints, Strings, Containers, Tags bool // which headers may be widened
	Indef                           bool // allow indefinite arrays/maps
	IndefStrings                    bool // allow chunked strings
	Prob                            int  // per-node probability in percent
	MaxDepth                        int  // only touch nodes at depth <= MaxDepth (0 = all)
}

func widen(r *Rng, n uint64) Form {
	min := MinForm(n)
	var opts []Form
	for _, f := range []Form{F1, F2, F4, F8} {
		if f > min {
			opts = append(opts, f)
		}
	}
	if len(opts) == 0 {
		return min
	}
	return opts[r.Intn(len(opts))]
}

// Reform returns a semantically equal copy of the item with randomly chosen
// non-minimal / indefinite header forms.
func Reform(r *Rng, i *Item, o ReformOpts) *Item { return reform(r, i.Clone(), o, 0) }

func reform(r *Rng, i *Item, o ReformOpts, depth int) *Item {
	hit := (o.MaxDepth == 0 || depth <= o.MaxDepth) && r.Intn(100) < o.Prob
	switch i.K {
	case KUInt, KNInt:
		if hit && o.Ints {
			i.F = widen(r, i.N)
		}
	case KTag:
		if hit && o.Tags {
			i.F = widen(r, i.N)
		}
	case KBStr, KTStr:
		if hit && o.IndefStrings && r.Intn(3) == 0 {
			k := KBStrI
			if i.K == KTStr {
				k = KTStrI
			}
			var chunks []Chunk
			bs := i.Bs
			for len(bs) > 0 {
				n := 1 + r.Intn(len(bs))
				chunks = append(chunks, Chunk{MinForm(uint64(n)), bs[:n]})
				bs = bs[n:]
			}
			i.K, i.Chunks, i.Bs = k, chunks, nil
		} else if hit && o.Strings {
			i.F = widen(r, uint64(len(i.Bs)))
		}
	case KArr, KMap:
		if hit && o.Containers {
			n := uint64(len(i.Xs))
			if i.K == KMap {
				n /= 2
			}
			if o.Indef && r.Intn(3) == 0 {
				i.F = Findef
			} else if i.F != Findef {
				i.F = widen(r, n)
			}
		}
	}
	for k, x := range i.Xs {
		i.Xs[k] = reform(r, x, o, depth+1)
	}
	return i
}

// RandItem generates a random well-formed item (all header forms).
func RandItem(r *Rng, depth int) *Item {
	k := r.Intn(11)
	if depth <= 0 && (k >= 6 && k <= 8) {
		k = r.Intn(4)
	}
	pickForm := func(n uint64) Form {
		if r.Intn(2) == 0 {
			return MinForm(n)
		}
		return widen(r, n)
	}
	switch k {
	case 0, 1:
		n := r.Boundary()
		kind := KUInt
		if k == 1 {
			kind = KNInt
		}
		return &Item{K: kind, F: pickForm(n), N: n}
	case 2, 3:
		bs := r.Bytes(r.Intn(30))
		kind := KBStr
		if k == 3 {
			kind = KTStr
			for j := range bs {
				bs[j] = 'a' + bs[j]%26
			}
		}
		return &Item{K: kind, F: pickForm(uint64(len(bs))), Bs: bs}
	case 4, 5:
		kind := KBStrI
		if k == 5 {
			kind = KTStrI
		}
		it := &Item{K: kind}
		for j := r.Intn(4); j > 0; j-- {
			bs := r.Bytes(r.Intn(8))
			for q := range bs {
				bs[q] = 'a' + bs[q]%26
			}
			it.Chunks = append(it.Chunks, Chunk{pickForm(uint64(len(bs))), bs})
		}
		return it
	case 6:
		n := r.Intn(5)
		it := &Item{K: KArr}
		for j := 0; j < n; j++ {
			it.Xs = append(it.Xs, RandItem(r, depth-1))
		}
		it.F = pickForm(uint64(n))
		if r.Intn(4) == 0 {
			it.F = Findef
		}
		return it
	case 7:
		n := r.Intn(4)
		it := &Item{K: KMap}
		for j := 0; j < n; j++ {
			it.Xs = append(it.Xs, U(uint64(j)+uint64(r.Intn(3))*10), RandItem(r, depth-1))
		}
		it.F = pickForm(uint64(n))
		if r.Intn(4) == 0 {
			it.F = Findef
		}
		return it
	case 8:
		t := uint64(r.Intn(300))
		return &Item{K: KTag, F: pickForm(t), N: t, Xs: []*Item{RandItem(r, depth-1)}}
	case 9:
		if r.Bool() {
			return &Item{K: KSimple, F: Fimm, N: uint64(20 + r.Intn(4))}
		}
		return &Item{K: KSimple, F: F1, N: uint64(32 + r.Intn(224))}
	default:
		f := []Form{F2, F4, F8}[r.Intn(3)]
		n := r.U64()
		if f == F2 {
			n &= 0xffff
		} else if f == F4 {
			n &= 0xffffffff
		}
		return &Item{K: KFloat, F: f, N: n}
	}
}
