// Package vh is the shared runtime of the per-property verification
// harnesses.  Each property has its own main package under cmd/<id>; it
// registers a translator (optional), a runner and (optionally) a post step.
//
//	<bin> gen  --out FILE                       print regenerated Coq tables
//	<bin> run  --seed N --tier T --out DIR      run implementation, write cases_*.v + result.json
//	<bin> post --out DIR                        read cases_*.out (coqc output), update result.json
//	<bin> run  ... --replay FILE                re-run one recorded case
package vh

import (
	"encoding/hex"
	"encoding/json"
	"flag"
	"fmt"
	"math/big"
	"os"
	"path/filepath"
	"regexp"
	"sort"
	"strconv"
	"strings"
)

// Violation is one concrete failure of the property on the implementation
// (found by the monitor) or one disagreement between model and implementation
// (found by the correspondence).
type Violation struct {
	// Kind is "monitor" (property fails on the real code for this input) or
	// "correspondence" (model and code disagree on this input).
	Kind string `json:"kind"`
	// Key identifies the failing input class / call site; matched against
	// KNOWN_FINDINGS.json.  Must be specific enough that a different defect
	// gets a different key.
	Key    string `json:"key"`
	What   string `json:"what"`
	Replay any    `json:"replay"`
}

type Result struct {
	Property           string         `json:"property"`
	Seed               int64          `json:"seed"`
	Tier               string         `json:"tier"`
	Evaluations        int            `json:"evaluations"`
	DistinctNontrivial int            `json:"distinct_nontrivial"`
	Rule               string         `json:"rule"`
	Samples            []any          `json:"samples"`
	Distribution       map[string]int `json:"distribution"`
	TracesValidated    int            `json:"traces_validated_against_impl"`
	Violations         []Violation    `json:"violations"`
	CaseFiles          []string       `json:"case_files"`
	CoqCases           int            `json:"coq_cases"`
	Notes              []string       `json:"notes"`
	Modelled           []string       `json:"modelled"`
	// CaseIndex maps "<file>#<index>" to a replay object so that a mismatch
	// index reported by Coq can be turned into a concrete input.
	CaseIndex map[string]any `json:"case_index"`

	seen map[string]bool
}

type Ctx struct {
	Seed   int64
	Tier   string
	Out    string
	Replay string
	Rng    *Rng
	Res    *Result
}

func (c *Ctx) Thorough() bool { return c.Tier == "thorough" }

// Pick returns q in the quick tier and t in the thorough tier.
func (c *Ctx) Pick(q, t int) int {
	if c.Thorough() {
		return t
	}
	return q
}

// Count records one evaluated case.  canon is a canonical rendering of the
// input; nontrivial says whether the case is non-trivial by the property's
// own rule.  Distinctness is measured on canon.
func (r *Result) Count(canon string, nontrivial bool, class string) {
	r.Evaluations++
	if r.seen == nil {
		r.seen = map[string]bool{}
	}
	if r.Distribution == nil {
		r.Distribution = map[string]int{}
	}
	if class != "" {
		r.Distribution[class]++
	}
	if nontrivial && !r.seen[canon] {
		r.seen[canon] = true
		r.DistinctNontrivial++
	}
}

// Begin records the case about to be run, so that a fatal crash of the
// implementation (stack overflow, runtime throw, os.Exit) that recover()
// cannot catch still leaves the failing input behind for the driver.
func (c *Ctx) Begin(replay any) {
	b, _ := json.Marshal(replay)
	os.WriteFile(filepath.Join(c.Out, "inflight.json"), b, 0o644)
}

func (r *Result) Sample(s any) {
	if len(r.Samples) < 6 {
		r.Samples = append(r.Samples, s)
	}
}

func (r *Result) Violate(kind, key, what string, replay any) {
	// keep at most 40, but always keep one per distinct key
	n := 0
	for _, v := range r.Violations {
		if v.Key == key {
			n++
		}
	}
	if n >= 3 || len(r.Violations) >= 200 {
		return
	}
	r.Violations = append(r.Violations, Violation{kind, key, what, replay})
}

type Runner struct {
	Property string
	Gen      func(out string) error
	Run      func(c *Ctx) error
	Post     func(c *Ctx) error
}

func Main(r Runner) {
	if len(os.Args) < 2 {
		fmt.Fprintln(os.Stderr, "usage: gen|run|post ...")
		os.Exit(2)
	}
	fs := flag.NewFlagSet(os.Args[1], flag.ExitOnError)
	seed := fs.Int64("seed", 1, "")
	tier := fs.String("tier", "quick", "")
	out := fs.String("out", "", "")
	replay := fs.String("replay", "", "")
	fs.Parse(os.Args[2:])
	switch os.Args[1] {
	case "gen":
		if r.Gen == nil {
			return
		}
		if err := r.Gen(*out); err != nil {
			fmt.Fprintln(os.Stderr, "gen:", err)
			os.Exit(3)
		}
	case "run":
		c := &Ctx{Seed: *seed, Tier: *tier, Out: *out, Replay: *replay, Rng: NewRng(uint64(*seed))}
		c.Res = &Result{Property: r.Property, Seed: *seed, Tier: *tier, CaseIndex: map[string]any{}}
		if err := r.Run(c); err != nil {
			fmt.Fprintln(os.Stderr, "run:", err)
			os.Exit(3)
		}
		c.save()
	case "post":
		c := &Ctx{Out: *out}
		c.Res = &Result{}
		b, err := os.ReadFile(filepath.Join(*out, "result.json"))
		if err != nil {
			fmt.Fprintln(os.Stderr, "post:", err)
			os.Exit(3)
		}
		if err := json.Unmarshal(b, c.Res); err != nil {
			fmt.Fprintln(os.Stderr, "post:", err)
			os.Exit(3)
		}
		c.Seed, c.Tier = c.Res.Seed, c.Res.Tier
		// a custom Post replaces the default (it may call DefaultPost itself)
		p := r.Post
		if p == nil {
			p = DefaultPost
		}
		if err := p(c); err != nil {
			fmt.Fprintln(os.Stderr, "post:", err)
			os.Exit(3)
		}
		// the index is only needed to resolve mismatches
		c.Res.CaseIndex = nil
		c.save()
	default:
		os.Exit(2)
	}
}

func (c *Ctx) save() {
	if c.Res.Samples == nil {
		c.Res.Samples = []any{}
	}
	if c.Res.Violations == nil {
		c.Res.Violations = []Violation{}
	}
	b, _ := json.MarshalIndent(c.Res, "", " ")
	if err := os.WriteFile(filepath.Join(c.Out, "result.json"), b, 0o644); err != nil {
		fmt.Fprintln(os.Stderr, err)
		os.Exit(3)
	}
}

// ---------------------------------------------------------------------------
// Coq case files

// CaseFile accumulates one cases_<k>.v.  Header is the Require line(s), each
// case a Coq term of the model's `case` type.  The file ends with
//
//	Definition M := Eval vm_compute in (mismatches cases).  Print M.
//
// where `mismatches : list case -> list nat` comes from the model.
type CaseFile struct {
	c       *Ctx
	name    string
	header  string
	cases   []string
	replays []any
	shard   int
	max     int
	// Func is the Coq function applied to the case list (default "mismatches")
	Func string
	// Type is the Coq type of one case (default "case")
	Type string
}

func (c *Ctx) NewCaseFile(name, header string) *CaseFile {
	return &CaseFile{c: c, name: name, header: header, max: 400, Func: "mismatches", Type: "case"}
}

func (f *CaseFile) SetShardSize(n int) { f.max = n }

func (f *CaseFile) Add(coqTerm string, replay any) {
	f.cases = append(f.cases, coqTerm)
	f.replays = append(f.replays, replay)
	if len(f.cases) >= f.max {
		f.Flush()
	}
}

func (f *CaseFile) Flush() {
	if len(f.cases) == 0 {
		return
	}
	fn := fmt.Sprintf("cases_%s_%d", f.name, f.shard)
	var sb strings.Builder
	sb.WriteString(f.header)
	sb.WriteString("\nSet Printing Width 100000.\nSet Printing Depth 1000000.\n")
	// one definition per case keeps parsing linear and error positions useful
	for i, cs := range f.cases {
		fmt.Fprintf(&sb, "Definition c%d : %s := %s.\n", i, f.Type, cs)
	}
	sb.WriteString("Definition cases := [")
	for i := range f.cases {
		if i > 0 {
			sb.WriteString("; ")
		}
		fmt.Fprintf(&sb, "c%d", i)
	}
	sb.WriteString("].\n")
	fmt.Fprintf(&sb, "Definition M := Eval vm_compute in (%s cases).\nPrint M.\n", f.Func)
	if err := os.WriteFile(filepath.Join(f.c.Out, fn+".v"), []byte(sb.String()), 0o644); err != nil {
		fmt.Fprintln(os.Stderr, err)
		os.Exit(3)
	}
	for i, r := range f.replays {
		f.c.Res.CaseIndex[fmt.Sprintf("%s#%d", fn, i)] = r
	}
	f.c.Res.CaseFiles = append(f.c.Res.CaseFiles, fn)
	f.c.Res.CoqCases += len(f.cases)
	f.cases, f.replays = nil, nil
	f.shard++
}

var mRe = regexp.MustCompile(`(?s)M\s*=\s*(.*?)\s*:\s*list`)

// DefaultPost reads every cases_*.out (stdout of coqc) and turns the printed
// mismatch list `M = [i; j; ...]` into correspondence violations.
func DefaultPost(c *Ctx) error {
	for _, fn := range c.Res.CaseFiles {
		b, err := os.ReadFile(filepath.Join(c.Out, fn+".out"))
		if err != nil {
			c.Res.Violate("correspondence", "coqc-failed:"+fn, "coqc produced no output for "+fn, nil)
			continue
		}
		m := mRe.FindSubmatch(b)
		if m == nil {
			msg := string(b)
			if len(msg) > 600 {
				msg = msg[:600]
			}
			c.Res.Violate("correspondence", "coqc-failed:"+fn, "cannot evaluate model on cases: "+msg, nil)
			continue
		}
		body := strings.TrimSpace(string(m[1]))
		if body == "[]" || body == "nil" {
			continue
		}
		body = strings.Trim(body, "[]")
		for _, t := range strings.Split(body, ";") {
			t = strings.TrimSpace(strings.TrimSuffix(strings.TrimSpace(t), "%nat"))
			i, err := strconv.Atoi(t)
			if err != nil {
				c.Res.Violate("correspondence", "unparsed:"+fn, "unparsed mismatch list: "+body, nil)
				break
			}
			key := fmt.Sprintf("%s#%d", fn, i)
			c.Res.Violate("correspondence", "model-vs-impl", "model and implementation disagree on case "+key, c.Res.CaseIndex[key])
		}
	}
	return nil
}

// ---------------------------------------------------------------------------
// Coq literal printers

func Bytes(b []byte) string { return `(hx "` + hex.EncodeToString(b) + `")` }
func N(n uint64) string     { return strconv.FormatUint(n, 10) + "%N" }
func Nat(n int) string      { return strconv.Itoa(n) + "%nat" }
func Z(n int64) string      { return "(" + strconv.FormatInt(n, 10) + ")%Z" }
func BigZ(n *big.Int) string {
	return "(" + n.String() + ")%Z"
}
func BigN(n *big.Int) string { return n.String() + "%N" }
func Bool(b bool) string {
	if b {
		return "true"
	}
	return "false"
}
func List(xs []string) string { return "[" + strings.Join(xs, "; ") + "]" }
func Opt(s string, ok bool) string {
	if ok {
		return "(Some " + s + ")"
	}
	return "None"
}
func Pair(a, b string) string { return "(" + a + ", " + b + ")" }
func Str(s string) string     { return `"` + strings.ReplaceAll(s, `"`, `""`) + `"` }

func Hex(b []byte) string { return hex.EncodeToString(b) }
func UnHex(s string) []byte {
	b, err := hex.DecodeString(strings.TrimSpace(s))
	if err != nil {
		panic(err)
	}
	return b
}

// SortedKeys is a helper for deterministic iteration.
func SortedKeys[V any](m map[string]V) []string {
	ks := make([]string, 0, len(m))
	for k := range m {
		ks = append(ks, k)
	}
	sort.Strings(ks)
	return ks
}

// WriteIfChanged writes a generated Coq file only when its content changed so
// that make does not rebuild needlessly.
func WriteIfChanged(path string, content string) error {
	old, err := os.ReadFile(path)
	if err == nil && string(old) == content {
		return nil
	}
	return os.WriteFile(path, []byte(content), 0o644)
}

// Recover runs f and reports whether it panicked.
func Recover(f func()) (panicked bool, val any) {
	defer func() {
		if r := recover(); r != nil {
			panicked, val = true, r
		}
	}()
	f()
	return
}
