package vh

// Rng is splitmix64; every random choice of a run derives from one state
// seeded by VERIF_SEED so that disagreements replay exactly.
type Rng struct{ s uint64 }

// NewRng hashes the seed first: the raw state advances by a constant, so
// starting at seed*constant would make the stream of seed s+1 the stream of
// seed s shifted by one draw.
func NewRng(seed uint64) *Rng {
	z := seed + 0x632BE59BD9B4E019
	z = (z ^ (z >> 30)) * 0xBF58476D1CE4E5B9
	z = (z ^ (z >> 27)) * 0x94D049BB133111EB
	z ^= z >> 31
	return &Rng{s: z*0xD6E8FEB86659FD93 + 0x1234567}
}

func (r *Rng) U64() uint64 {
	r.s += 0x9E3779B97F4A7C15
	z := r.s
	z = (z ^ (z >> 30)) * 0xBF58476D1CE4E5B9
	z = (z ^ (z >> 27)) * 0x94D049BB133111EB
	return z ^ (z >> 31)
}

// Intn returns a value in [0,n).
func (r *Rng) Intn(n int) int {
	if n <= 0 {
		return 0
	}
	return int(r.U64() % uint64(n))
}

func (r *Rng) Bool() bool { return r.U64()&1 == 1 }

// Chance returns true with probability num/den.
func (r *Rng) Chance(num, den int) bool { return r.Intn(den) < num }

func (r *Rng) Bytes(n int) []byte {
	b := make([]byte, n)
	for i := range b {
		b[i] = byte(r.U64())
	}
	return b
}

// Fork derives an independent stream.
func (r *Rng) Fork() *Rng { return NewRng(r.U64()) }

// Pick returns one of xs.
func PickOne[T any](r *Rng, xs []T) T { return xs[r.Intn(len(xs))] }

// Boundary returns an "interesting" uint64: small, around powers of two, max.
func (r *Rng) Boundary() uint64 {
	switch r.Intn(8) {
	case 0:
		return uint64(r.Intn(4))
	case 1:
		return uint64(r.Intn(300))
	case 2:
		k := uint(r.Intn(64))
		return (uint64(1) << k) - 1 + uint64(r.Intn(3))
	case 3:
		return ^uint64(0) - uint64(r.Intn(3))
	case 4:
		return uint64(1)<<63 - 1 + uint64(r.Intn(3))
	case 5:
		return r.U64() >> uint(r.Intn(64))
	default:
		return r.U64()
	}
}
