package vh

import (
	"bytes"
	"testing"
)

func TestRoundTrip(t *testing.T) {
	r := NewRng(7)
	for i := 0; i < 20000; i++ {
		it := RandItem(r, 4)
		e := it.Enc()
		p, n, err := ParseItem(e)
		if err != nil || n != len(e) {
			t.Fatalf("parse %x: %v %d", e, err, n)
		}
		if !bytes.Equal(p.Enc(), e) || p.Coq() != it.Coq() {
			t.Fatalf("mismatch %x\n%s\n%s", e, p.Coq(), it.Coq())
		}
		rf := Reform(r, it, ReformOpts{Ints: true, Strings: true, Containers: true, Tags: true, Indef: true, IndefStrings: true, Prob: 50})
		if _, _, err := ParseItem(rf.Enc()); err != nil {
			t.Fatal(err)
		}
	}
}
