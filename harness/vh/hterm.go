package vh

import (
	"crypto/sha512"
	"encoding/hex"
	"fmt"
	"regexp"
	"strconv"
	"strings"

	"golang.org/x/crypto/blake2b"
	"golang.org/x/crypto/sha3"
)

var strRe = regexp.MustCompile(`"((?:[^"]|"")*)"`)

// ParseStringList extracts the string literals of a printed `M = ["..."; ...]`.
func ParseStringList(out []byte) ([]string, error) {
	m := mRe.FindSubmatch(out)
	if m == nil {
		s := string(out)
		if len(s) > 500 {
			s = s[:500]
		}
		return nil, fmt.Errorf("no M = ... in coqc output: %s", s)
	}
	var res []string
	for _, g := range strRe.FindAllSubmatch(m[1], -1) {
		res = append(res, strings.ReplaceAll(string(g[1]), `""`, `"`))
	}
	return res, nil
}

// HashAlg evaluates hash algorithm number alg of Lib/HTerm.v.
func HashAlg(alg int, data []byte) []byte {
	switch alg {
	case 0:
		h := blake2b.Sum256(data)
		return h[:]
	case 1:
		h, _ := blake2b.New(28, nil)
		h.Write(data)
		return h.Sum(nil)
	case 2:
		h := sha3.Sum256(data)
		return h[:]
	case 3:
		h := sha512.Sum512(data)
		return h[:]
	}
	panic("unknown hash alg")
}

// EvalHTerm evaluates a term serialised by Lib/HTerm.hser.
func EvalHTerm(s string) ([]byte, error) {
	p := &hparser{s: s}
	b, err := p.term()
	if err != nil {
		return nil, err
	}
	if p.i != len(p.s) {
		return nil, fmt.Errorf("trailing input at %d", p.i)
	}
	return b, nil
}

type hparser struct {
	s string
	i int
}

func (p *hparser) term() ([]byte, error) {
	if p.i >= len(p.s) {
		return nil, fmt.Errorf("eof")
	}
	switch p.s[p.i] {
	case 'B':
		j := strings.IndexByte(p.s[p.i:], ';')
		if j < 0 {
			return nil, fmt.Errorf("unterminated B")
		}
		b, err := hex.DecodeString(p.s[p.i+1 : p.i+j])
		p.i += j + 1
		return b, err
	case 'H':
		j := strings.IndexByte(p.s[p.i:], '(')
		if j < 0 {
			return nil, fmt.Errorf("bad H")
		}
		alg, err := strconv.Atoi(p.s[p.i+1 : p.i+j])
		if err != nil {
			return nil, err
		}
		p.i += j + 1
		var pre []byte
		for p.i < len(p.s) && p.s[p.i] != ')' {
			b, err := p.term()
			if err != nil {
				return nil, err
			}
			pre = append(pre, b...)
		}
		if p.i >= len(p.s) {
			return nil, fmt.Errorf("unterminated H")
		}
		p.i++
		return HashAlg(alg, pre), nil
	}
	return nil, fmt.Errorf("bad term at %d: %q", p.i, p.s[p.i:min(len(p.s), p.i+10)])
}
