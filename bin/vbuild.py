"""Incremental Coq build of one property's dependency cone with fine-grained locks.

The shared .vo tree is used by many checks at once.  A global lock around
`make` serialises everything, and concurrent `make` runs race on
.Makefile.coq.d, so the per-check build compiles the cone itself:

  * the cone is computed from `From V Require ...` lines;
  * files are compiled in dependency order with plain `coqc -Q . V`, a file
    being rebuilt when its .vo is missing, older than its .v, or older than
    the .vo of one of its dependencies;
  * phase 1 holds .lock-Lib while (re)building the Lib/ part of the cone,
    phase 2 holds .lock-<Dir> (sorted order) for every other directory of the
    cone.  The caller may keep shared locks afterwards while it evaluates
    case files against the compiled model.
`bin/setup` still does the full `make` of the whole project.
"""
import fcntl, os, re, subprocess, time

VERIF = os.path.dirname(os.path.dirname(os.path.abspath(__file__)))
COQ = os.path.join(VERIF, "coq")

_MOD = re.compile(r"[A-Za-z_]\w*(?:\.[A-Za-z_]\w*)*")


def deps_of(f):
    """direct V.* dependencies of coq/<f> as relative .v paths"""
    try:
        src = open(os.path.join(COQ, f)).read()
    except OSError:
        return []
    src = re.sub(r"\(\*.*?\*\)", "", src, flags=re.S)
    out = []
    for stmt in re.findall(r"From\s+V\s+Require\s+(?:Import\s+|Export\s+)?([^;{}()]*?)\.(?=\s|$)", src):
        for mod in stmt.split():
            if _MOD.fullmatch(mod):
                p = mod.replace(".", "/") + ".v"
                if os.path.exists(os.path.join(COQ, p)) and p not in out:
                    out.append(p)
    return out


def cone_of(targets):
    """transitive cone in dependency (topological) order"""
    order, state = [], {}

    def visit(f):
        if state.get(f) == 2:
            return
        if state.get(f) == 1:
            return  # cycle: coqc will complain
        state[f] = 1
        for d in deps_of(f):
            visit(d)
        state[f] = 2
        order.append(f)

    for t in targets:
        if os.path.exists(os.path.join(COQ, t)):
            visit(t)
    return order


def _mtime(p):
    try:
        return os.path.getmtime(p)
    except OSError:
        return None


def stale(f):
    v = os.path.join(COQ, f)
    vo = v[:-2] + ".vo"
    mvo = _mtime(vo)
    if mvo is None or mvo < _mtime(v):
        return True
    for d in deps_of(f):
        dvo = _mtime(os.path.join(COQ, d)[:-2] + ".vo")
        if dvo is None or dvo > mvo:
            return True
    return False


def _compile(files, timeout):
    """compile stale files among `files` (already in dependency order)"""
    log = ""
    for f in files:
        if not stale(f):
            continue
        t0 = time.time()
        try:
            p = subprocess.run(["coqc", "-Q", ".", "V", f], cwd=COQ, stdout=subprocess.PIPE, stderr=subprocess.STDOUT,
                               text=True, timeout=timeout)
            rc, out = p.returncode, p.stdout
        except subprocess.TimeoutExpired as ex:
            out = ex.stdout or ""
            if isinstance(out, bytes):
                out = out.decode(errors="replace")
            rc, out = 124, out + "\n[coqc timeout after %ss]" % timeout
        log += "COQC %s (%.1fs)\n%s" % (f, time.time() - t0, out)
        if rc != 0:
            # make sure a stale .vo cannot be mistaken for a checked one
            try:
                os.remove(os.path.join(COQ, f)[:-2] + ".vo")
            except OSError:
                pass
            return rc, log
    return 0, log


class Locks:
    def __init__(self):
        self.held = []

    def acquire(self, names, mode=fcntl.LOCK_EX):
        for n in sorted(set(names)):
            fh = open(os.path.join(COQ, ".lock-" + n), "w")
            fcntl.flock(fh, mode)
            self.held.append(fh)

    def downgrade(self):
        for fh in self.held:
            fcntl.flock(fh, fcntl.LOCK_SH)

    def release(self):
        for fh in self.held:
            try:
                fcntl.flock(fh, fcntl.LOCK_UN)
                fh.close()
            except OSError:
                pass
        self.held = []


def build(targets, timeout=900, keep_shared=False):
    """build targets (relative .v paths).  Returns (rc, log, cone, locks)."""
    files = cone_of(targets)
    lib = [f for f in files if f.startswith("Lib/")]
    rest = [f for f in files if not f.startswith("Lib/")]
    log = ""
    locks = Locks()
    if lib:
        locks.acquire(["Lib"])
        try:
            rc, l = _compile(lib, timeout)
            log += l
        finally:
            locks.release()
        if rc != 0:
            return rc, log, files, locks
    dirs = [f.split("/")[0] for f in rest]
    locks.acquire(dirs)
    try:
        rc, l = _compile(rest, timeout)
        log += l
    except BaseException:
        locks.release()
        raise
    if keep_shared:
        locks.downgrade()
    else:
        locks.release()
    return rc, log, files, locks


if __name__ == "__main__":
    import sys
    tg = [a[:-1] if a.endswith(".vo") else a for a in sys.argv[1:]]
    tg = [a if a.endswith(".v") else a + ".v" for a in tg]
    rc, log, files, _ = build(tg, timeout=int(os.environ.get("COQMAKE_TIMEOUT", "1200")))
    sys.stdout.write(log)
    if rc == 0:
        print("built: " + " ".join(t for t in tg))
    sys.exit(rc)
